//! Reference interpreter ("model") with definedness tracking, written from the ISA description
//! in the statement of C01 / C07 (DESIGN.md appendix A) - not from src/interpreter.rs.
//!
//! Addresses are symbolic: a pointer is (region, offset). A run is *defined* iff no branch
//! decision, effective address, helper argument, byte stored to packet/metadata or the returned
//! value depends on an unwritten register / stack byte, on r1-r5 after a helper call or on a raw
//! address.

use crate::isa::*;
use std::collections::HashMap;

pub const R_PKT: u8 = 0;
pub const R_MBUFF: u8 = 1;
pub const R_STACK: u8 = 2;
pub const STACK_SIZE: usize = 512;
pub const MAX_DEPTH: usize = 8;
/// Accesses that miss their region by less than this are certainly in no other region.
pub const NEAR: i64 = 4096;

#[derive(Clone, Copy, Debug, PartialEq, Eq)]
pub enum Tag {
    Clean,
    Addr(u8),
    Bad,
}

#[derive(Clone, Copy, Debug, PartialEq, Eq)]
pub struct Val {
    pub bits: u64,
    pub tag: Tag,
}

impl Val {
    pub const fn clean(bits: u64) -> Val {
        Val { bits, tag: Tag::Clean }
    }
    pub const fn addr(region: u8, off: u64) -> Val {
        Val { bits: off, tag: Tag::Addr(region) }
    }
    pub const BAD: Val = Val { bits: 0, tag: Tag::Bad };
    pub fn is_clean(&self) -> bool {
        self.tag == Tag::Clean
    }
}

#[derive(Clone, Copy, Debug, PartialEq, Eq)]
pub enum Sh {
    Clean,
    Undef,
    /// byte `k` of spilled pointer number `id`
    Ptr { id: u32, k: u8 },
}

#[derive(Clone, Debug)]
pub struct Region {
    pub data: Vec<u8>,
    pub sh: Vec<Sh>,
    /// real base address modulo 8 (needed for the alignment rule of atomic adds)
    pub base_mod8: u8,
    /// bytes stored here are observable by the harness (packet, user metadata buffer)
    pub shared: bool,
}

impl Region {
    pub fn clean(data: Vec<u8>, base_mod8: u8, shared: bool) -> Region {
        let n = data.len();
        Region { data, sh: vec![Sh::Clean; n], base_mod8, shared }
    }
    pub fn undef(len: usize, base_mod8: u8) -> Region {
        Region { data: vec![0; len], sh: vec![Sh::Undef; len], base_mod8, shared: false }
    }
}

#[derive(Clone, Copy, Debug, PartialEq, Eq)]
pub enum MErr {
    OutOfBounds,
    UnknownHelper,
    Depth,
    Misaligned,
}

#[derive(Clone, Debug, PartialEq, Eq)]
pub enum MOut {
    Ret(u64),
    Err(MErr),
    Undefined(&'static str),
    StepLimit,
}

/// A helper as the model sees it: a pure function of its first `arity` arguments.
#[derive(Clone, Copy)]
pub struct HelperModel {
    pub arity: u8,
    pub f: fn(&[u64; 5]) -> u64,
}

#[derive(Clone, Debug, Default)]
pub struct Trace {
    pub steps: u64,
    pub cond_jumps: u64,
    pub taken: u64,
    pub back_edges: u64,
    pub mem_accesses: u64,
    pub local_calls: u64,
    pub max_depth: usize,
    pub helper_calls: u64,
    pub helper_log: Vec<(u32, [u64; 5])>,
    pub max_pc: usize,
    pub regs_used: u16,
    pub div_by_zero: u64,
    pub big_shift: u64,
    pub neg_imm_unsigned_cmp: u64,
    /// a 64-bit unsigned/equality compare with a negative immediate whose zero-extended reading
    /// decides differently from the sign-extended one (known finding I2)
    pub i2_trigger: bool,
    pub callee_stack_write: bool,
    pub xadds: u64,
    pub neg_ld_imm: u64,
    pub far_jump: bool,
    pub mod32_zero_upper: bool,
    pub depth_hist: [u32; 10],
    /// bitset of executed opcodes
    pub opcodes: [u64; 4],
}

#[derive(Clone, Copy, Debug, Default)]
pub struct Quirks {
    /// interpreter quirk I2: immediates of 64-bit JEQ/JNE/JGT/JGE/JLT/JLE are zero-extended
    pub zx_jmp_imm: bool,
    /// read a negative immediate of ldabs/ldind as its zero-extended 32-bit pattern (what the
    /// interpreter does) instead of declaring the run outside the claim. Used by the engine
    /// differentials C03/C04, whose premise is "the interpreter returns a value, in bounds".
    pub ld_neg_imm_zx: bool,
}

pub struct Machine<'a> {
    pub prog: &'a [Insn],
    pub regions: Vec<Region>,
    pub ptrs: Vec<(u8, u64)>,
    pub reg: [Val; 11],
    pub helpers: &'a HashMap<u32, HelperModel>,
    /// frame size by function entry pc (None => default 256 everywhere)
    pub frames: Option<&'a HashMap<usize, u16>>,
    pub frame_default: u16,
    pub quirks: Quirks,
    pub max_steps: u64,
    pub trace: Trace,
}

struct Frame {
    ret: usize,
    saved: [Val; 4],
    size: u16,
    entry: usize,
}

fn alu64(op: u8, a: u64, b: u64) -> u64 {
    match op {
        ALU_ADD => a.wrapping_add(b),
        ALU_SUB => a.wrapping_sub(b),
        ALU_MUL => a.wrapping_mul(b),
        ALU_DIV => {
            if b == 0 {
                0
            } else {
                a / b
            }
        }
        ALU_OR => a | b,
        ALU_AND => a & b,
        ALU_LSH => a << (b & 63),
        ALU_RSH => a >> (b & 63),
        ALU_MOD => {
            if b == 0 {
                a
            } else {
                a % b
            }
        }
        ALU_XOR => a ^ b,
        ALU_MOV => b,
        ALU_ARSH => ((a as i64) >> (b & 63)) as u64,
        _ => unreachable!(),
    }
}

fn alu32(op: u8, a: u32, b: u32) -> u32 {
    match op {
        ALU_ADD => a.wrapping_add(b),
        ALU_SUB => a.wrapping_sub(b),
        ALU_MUL => a.wrapping_mul(b),
        ALU_DIV => {
            if b == 0 {
                0
            } else {
                a / b
            }
        }
        ALU_OR => a | b,
        ALU_AND => a & b,
        ALU_LSH => a << (b & 31),
        ALU_RSH => a >> (b & 31),
        ALU_MOD => {
            if b == 0 {
                a
            } else {
                a % b
            }
        }
        ALU_XOR => a ^ b,
        ALU_MOV => b,
        ALU_ARSH => ((a as i32) >> (b & 31)) as u32,
        _ => unreachable!(),
    }
}

pub fn cond64(c: u8, a: u64, b: u64) -> bool {
    match c {
        J_EQ => a == b,
        J_NE => a != b,
        J_GT => a > b,
        J_GE => a >= b,
        J_LT => a < b,
        J_LE => a <= b,
        J_SET => a & b != 0,
        J_SGT => (a as i64) > (b as i64),
        J_SGE => (a as i64) >= (b as i64),
        J_SLT => (a as i64) < (b as i64),
        J_SLE => (a as i64) <= (b as i64),
        _ => unreachable!(),
    }
}

pub fn cond32(c: u8, a: u32, b: u32) -> bool {
    match c {
        J_EQ => a == b,
        J_NE => a != b,
        J_GT => a > b,
        J_GE => a >= b,
        J_LT => a < b,
        J_LE => a <= b,
        J_SET => a & b != 0,
        J_SGT => (a as i32) > (b as i32),
        J_SGE => (a as i32) >= (b as i32),
        J_SLT => (a as i32) < (b as i32),
        J_SLE => (a as i32) <= (b as i32),
        _ => unreachable!(),
    }
}

enum Access {
    Ok(u8, usize),
    Err,
    Undefined(&'static str),
}

impl<'a> Machine<'a> {
    fn frame_of(&self, entry: usize) -> u16 {
        match self.frames {
            None => 256,
            Some(m) => m.get(&entry).copied().unwrap_or(self.frame_default),
        }
    }

    /// How far outside a region an address is still certainly in no other region. The stack is
    /// private memory of the engine (heap or native stack), far away from the mmap'ed packet and
    /// metadata arenas of the harness.
    fn near(&self, r: u8) -> i64 {
        if r == R_STACK {
            1 << 20
        } else {
            NEAR
        }
    }

    /// Resolve an effective address for an access of `n` bytes.
    fn resolve(&self, base: Val, off: i64, n: usize) -> Access {
        match base.tag {
            Tag::Bad => Access::Undefined("address-undefined"),
            Tag::Clean => {
                let ea = base.bits.wrapping_add(off as u64);
                // null page and the top of the address space belong to no region
                if ea < NEAR as u64 || ea > u64::MAX - NEAR as u64 - n as u64 {
                    Access::Err
                } else {
                    Access::Undefined("address-raw-number")
                }
            }
            Tag::Addr(r) => {
                let len = self.regions[r as usize].data.len() as i64;
                let o = (base.bits as i64).wrapping_add(off);
                if o >= 0 && o.checked_add(n as i64).map(|e| e <= len).unwrap_or(false) {
                    Access::Ok(r, o as usize)
                } else if o > -self.near(r) && o < len + self.near(r) {
                    Access::Err
                } else {
                    Access::Undefined("address-far-outside-its-region")
                }
            }
        }
    }

    fn load(&mut self, r: u8, o: usize, n: usize) -> Val {
        let reg = &self.regions[r as usize];
        let sh = &reg.sh[o..o + n];
        if sh.iter().all(|s| *s == Sh::Clean) {
            let mut b = [0u8; 8];
            b[..n].copy_from_slice(&reg.data[o..o + n]);
            return Val::clean(u64::from_le_bytes(b));
        }
        if n == 8 {
            if let Sh::Ptr { id, k: 0 } = sh[0] {
                if sh.iter().enumerate().all(|(j, s)| *s == Sh::Ptr { id, k: j as u8 }) {
                    let (region, off) = self.ptrs[id as usize];
                    return Val::addr(region, off);
                }
            }
        }
        Val::BAD
    }

    /// Returns false when a non-clean value reaches shared memory (run undefined).
    fn store(&mut self, r: u8, o: usize, n: usize, v: Val) -> bool {
        let shared = self.regions[r as usize].shared;
        match v.tag {
            Tag::Clean => {
                let reg = &mut self.regions[r as usize];
                reg.data[o..o + n].copy_from_slice(&v.bits.to_le_bytes()[..n]);
                for s in &mut reg.sh[o..o + n] {
                    *s = Sh::Clean;
                }
                true
            }
            Tag::Addr(region) if n == 8 && !shared => {
                let id = self.ptrs.len() as u32;
                self.ptrs.push((region, v.bits));
                let reg = &mut self.regions[r as usize];
                for (k, s) in reg.sh[o..o + 8].iter_mut().enumerate() {
                    *s = Sh::Ptr { id, k: k as u8 };
                }
                true
            }
            _ => {
                if shared {
                    return false;
                }
                let reg = &mut self.regions[r as usize];
                for s in &mut reg.sh[o..o + n] {
                    *s = Sh::Undef;
                }
                true
            }
        }
    }

    pub fn run(&mut self) -> MOut {
        let n = self.prog.len();
        let mut pc: usize = 0;
        let mut stack: Vec<Frame> = Vec::new();
        let mut cur_entry: usize = 0;
        loop {
            if self.trace.steps >= self.max_steps {
                return MOut::StepLimit;
            }
            if pc >= n {
                return MOut::Undefined("pc-out-of-program");
            }
            self.trace.steps += 1;
            self.trace.max_pc = self.trace.max_pc.max(pc);
            let x = self.prog[pc];
            self.trace.opcodes[(x.opc >> 6) as usize] |= 1u64 << (x.opc & 63);
            let Some(kind) = kind_of(x.opc) else { return MOut::Undefined("not-an-instruction") };
            let (d, s) = (x.dst as usize, x.src as usize);
            if d > 10 || s > 10 {
                return MOut::Undefined("bad-register");
            }
            let u = uses_of(kind);
            if u.dst {
                self.trace.regs_used |= 1 << d;
            }
            if u.src && kind != Kind::Call {
                self.trace.regs_used |= 1 << s;
            }
            let mut next = pc + 1;
            match kind {
                Kind::AluImm | Kind::AluReg => {
                    let op = x.opc >> 4;
                    let is64 = x.opc & 7 == CLS_ALU64;
                    let a = self.reg[d];
                    let b = if kind == Kind::AluReg { self.reg[s] } else { Val::clean(x.imm as i64 as u64) };
                    if matches!(op, ALU_DIV | ALU_MOD) && b.is_clean() && (if is64 { b.bits == 0 } else { b.bits as u32 == 0 }) {
                        self.trace.div_by_zero += 1;
                        if !is64 && op == ALU_MOD && a.is_clean() && a.bits >> 32 != 0 {
                            self.trace.mod32_zero_upper = true;
                        }
                    }
                    if matches!(op, ALU_LSH | ALU_RSH | ALU_ARSH) && b.is_clean() && b.bits >= if is64 { 64 } else { 32 } {
                        self.trace.big_shift += 1;
                    }
                    let res = if op == ALU_MOV {
                        if is64 {
                            b
                        } else if b.is_clean() {
                            Val::clean(b.bits as u32 as u64)
                        } else {
                            Val::BAD
                        }
                    } else if a.is_clean() && b.is_clean() {
                        if is64 {
                            Val::clean(alu64(op, a.bits, b.bits))
                        } else if op == ALU_MOD && b.bits as u32 == 0 {
                            // modulo by zero leaves the destination (all 64 bits) - see DESIGN 6.1
                            a
                        } else {
                            Val::clean(alu32(op, a.bits as u32, b.bits as u32) as u64)
                        }
                    } else if is64 {
                        match (op, a.tag, b.tag) {
                            (ALU_ADD, Tag::Addr(r), Tag::Clean) => Val::addr(r, a.bits.wrapping_add(b.bits)),
                            (ALU_ADD, Tag::Clean, Tag::Addr(r)) => Val::addr(r, a.bits.wrapping_add(b.bits)),
                            (ALU_SUB, Tag::Addr(r), Tag::Clean) => Val::addr(r, a.bits.wrapping_sub(b.bits)),
                            (ALU_SUB, Tag::Addr(r1), Tag::Addr(r2)) if r1 == r2 => Val::clean(a.bits.wrapping_sub(b.bits)),
                            _ => Val::BAD,
                        }
                    } else {
                        Val::BAD
                    };
                    self.reg[d] = res;
                }
                Kind::Neg => {
                    let a = self.reg[d];
                    self.reg[d] = if !a.is_clean() {
                        Val::BAD
                    } else if x.opc & 7 == CLS_ALU64 {
                        Val::clean(0u64.wrapping_sub(a.bits))
                    } else {
                        Val::clean(0u32.wrapping_sub(a.bits as u32) as u64)
                    };
                }
                Kind::Endian => {
                    let a = self.reg[d];
                    self.reg[d] = if !a.is_clean() {
                        Val::BAD
                    } else {
                        let be = x.opc == BE;
                        Val::clean(match (x.imm, be) {
                            (16, false) => a.bits & 0xffff,
                            (32, false) => a.bits & 0xffff_ffff,
                            (64, false) => a.bits,
                            (16, true) => (a.bits as u16).swap_bytes() as u64,
                            (32, true) => (a.bits as u32).swap_bytes() as u64,
                            (64, true) => a.bits.swap_bytes(),
                            _ => return MOut::Undefined("bad-endian-width"),
                        })
                    };
                }
                Kind::Lddw => {
                    if pc + 1 >= n {
                        return MOut::Undefined("truncated-lddw");
                    }
                    let hi = self.prog[pc + 1].imm as u32 as u64;
                    self.reg[d] = Val::clean((x.imm as u32 as u64) | (hi << 32));
                    next = pc + 2;
                }
                Kind::Ldx => {
                    let nbytes = size_bytes(x.opc);
                    self.trace.mem_accesses += 1;
                    match self.resolve(self.reg[s], x.off as i64, nbytes) {
                        Access::Ok(r, o) => self.reg[d] = self.load(r, o, nbytes),
                        Access::Err => return MOut::Err(MErr::OutOfBounds),
                        Access::Undefined(w) => return MOut::Undefined(w),
                    }
                }
                Kind::St | Kind::Stx => {
                    let nbytes = size_bytes(x.opc);
                    self.trace.mem_accesses += 1;
                    let v = if kind == Kind::St { Val::clean(x.imm as i64 as u64) } else { self.reg[s] };
                    match self.resolve(self.reg[d], x.off as i64, nbytes) {
                        Access::Ok(r, o) => {
                            if r == R_STACK && !stack.is_empty() {
                                self.trace.callee_stack_write = true;
                            }
                            if !self.store(r, o, nbytes, v) {
                                return MOut::Undefined("non-clean-value-stored-to-shared-memory");
                            }
                        }
                        Access::Err => return MOut::Err(MErr::OutOfBounds),
                        Access::Undefined(w) => return MOut::Undefined(w),
                    }
                }
                Kind::Xadd => {
                    let nbytes = size_bytes(x.opc);
                    self.trace.mem_accesses += 1;
                    self.trace.xadds += 1;
                    match self.resolve(self.reg[d], x.off as i64, nbytes) {
                        Access::Ok(r, o) => {
                            let real = self.regions[r as usize].base_mod8 as usize + o;
                            if real % nbytes != 0 {
                                return MOut::Err(MErr::Misaligned);
                            }
                            let old = self.load(r, o, nbytes);
                            let add = self.reg[s];
                            let v = if old.is_clean() && add.is_clean() {
                                if nbytes == 4 {
                                    Val::clean((old.bits as u32).wrapping_add(add.bits as u32) as u64)
                                } else {
                                    Val::clean(old.bits.wrapping_add(add.bits))
                                }
                            } else {
                                Val::BAD
                            };
                            if r == R_STACK && !stack.is_empty() {
                                self.trace.callee_stack_write = true;
                            }
                            if !self.store(r, o, nbytes, v) {
                                return MOut::Undefined("non-clean-value-stored-to-shared-memory");
                            }
                        }
                        Access::Err => return MOut::Err(MErr::OutOfBounds),
                        Access::Undefined(w) => return MOut::Undefined(w),
                    }
                }
                Kind::LdAbs | Kind::LdInd => {
                    let nbytes = size_bytes(x.opc);
                    self.trace.mem_accesses += 1;
                    self.trace.regs_used |= 1;
                    if x.imm < 0 && !self.quirks.ld_neg_imm_zx {
                        // the statement does not say how a negative immediate is read here
                        // (the engines differ): outside the claim - DESIGN 6.4
                        return MOut::Undefined("packet-load-negative-immediate");
                    }
                    if x.imm < 0 {
                        self.trace.neg_ld_imm += 1;
                    }
                    let mut off = x.imm as u32 as u64;
                    if kind == Kind::LdInd {
                        let sv = self.reg[s];
                        if !sv.is_clean() {
                            return MOut::Undefined("ldind-index-undefined");
                        }
                        off = off.wrapping_add(sv.bits);
                    }
                    let len = self.regions[R_PKT as usize].data.len() as u64;
                    if off.checked_add(nbytes as u64).map(|e| e <= len).unwrap_or(false) {
                        self.reg[0] = self.load(R_PKT, off as usize, nbytes);
                    } else if off < len + NEAR as u64 {
                        return MOut::Err(MErr::OutOfBounds);
                    } else {
                        // far beyond the packet: may or may not hit another region
                        return MOut::Undefined("packet-load-far-outside");
                    }
                }
                Kind::Ja => {
                    next = (pc as i64 + 1 + x.off as i64) as usize;
                    if x.off < 0 {
                        self.trace.back_edges += 1;
                    }
                    if x.off as i64 > 16000 || (x.off as i64) < -16000 || pc > 32767 {
                        self.trace.far_jump = true;
                    }
                }
                Kind::JmpImm | Kind::JmpReg => {
                    let c = x.opc >> 4;
                    let is64 = x.opc & 7 == CLS_JMP;
                    let a = self.reg[d];
                    let b = if kind == Kind::JmpReg { self.reg[s] } else { Val::clean(x.imm as i64 as u64) };
                    let decision = if a.is_clean() && b.is_clean() {
                        if is64 {
                            let spec = cond64(c, a.bits, b.bits);
                            if kind == Kind::JmpImm && x.imm < 0 && matches!(c, J_EQ | J_NE | J_GT | J_GE | J_LT | J_LE) {
                                self.trace.neg_imm_unsigned_cmp += 1;
                                let zx = cond64(c, a.bits, x.imm as u32 as u64);
                                if zx != spec {
                                    self.trace.i2_trigger = true;
                                }
                                if self.quirks.zx_jmp_imm {
                                    zx
                                } else {
                                    spec
                                }
                            } else {
                                spec
                            }
                        } else {
                            cond32(c, a.bits as u32, b.bits as u32)
                        }
                    } else if is64 && c != J_SET {
                        match (a.tag, b.tag) {
                            (Tag::Addr(r1), Tag::Addr(r2)) if r1 == r2 => {
                                let len = self.regions[r1 as usize].data.len() as u64;
                                if a.bits <= len && b.bits <= len {
                                    cond64(c, a.bits, b.bits)
                                } else {
                                    return MOut::Undefined("comparison-of-out-of-range-pointers");
                                }
                            }
                            _ => return MOut::Undefined("branch-on-undefined"),
                        }
                    } else {
                        return MOut::Undefined("branch-on-undefined");
                    };
                    self.trace.cond_jumps += 1;
                    if decision {
                        self.trace.taken += 1;
                        next = (pc as i64 + 1 + x.off as i64) as usize;
                        if x.off < 0 {
                            self.trace.back_edges += 1;
                        }
                    }
                    if x.off as i64 > 16000 || (x.off as i64) < -16000 || pc > 32767 {
                        self.trace.far_jump = true;
                    }
                }
                Kind::Call => {
                    if x.src == 0 {
                        let id = x.imm as u32;
                        let Some(h) = self.helpers.get(&id) else { return MOut::Err(MErr::UnknownHelper) };
                        let mut args = [0u64; 5];
                        for k in 0..5 {
                            let v = self.reg[k + 1];
                            if k < h.arity as usize {
                                if !v.is_clean() {
                                    return MOut::Undefined("helper-argument-undefined");
                                }
                                args[k] = v.bits;
                            }
                        }
                        self.trace.helper_calls += 1;
                        if self.trace.helper_log.len() < 64 {
                            self.trace.helper_log.push((id, args));
                        }
                        self.trace.depth_hist[stack.len().min(9)] += 1;
                        self.reg[0] = Val::clean((h.f)(&args));
                        for k in 1..=5 {
                            self.reg[k] = Val::BAD;
                        }
                    } else if x.src == 1 {
                        if stack.len() >= MAX_DEPTH {
                            return MOut::Err(MErr::Depth);
                        }
                        let size = self.frame_of(cur_entry);
                        stack.push(Frame { ret: pc + 1, saved: [self.reg[6], self.reg[7], self.reg[8], self.reg[9]], size, entry: cur_entry });
                        self.reg[10].bits = self.reg[10].bits.wrapping_sub(size as u64);
                        next = (pc as i64 + 1 + x.imm as i64) as usize;
                        cur_entry = next;
                        self.trace.local_calls += 1;
                        self.trace.max_depth = self.trace.max_depth.max(stack.len());
                    } else {
                        return MOut::Undefined("bad-call-kind");
                    }
                }
                Kind::TailCall => return MOut::Undefined("tail-call"),
                Kind::Exit => match stack.pop() {
                    None => {
                        let r0 = self.reg[0];
                        return if r0.is_clean() { MOut::Ret(r0.bits) } else { MOut::Undefined("return-value-undefined") };
                    }
                    Some(f) => {
                        self.reg[6] = f.saved[0];
                        self.reg[7] = f.saved[1];
                        self.reg[8] = f.saved[2];
                        self.reg[9] = f.saved[3];
                        self.reg[10].bits = self.reg[10].bits.wrapping_add(f.size as u64);
                        next = f.ret;
                        cur_entry = f.entry;
                    }
                },
            }
            pc = next;
        }
    }
}
