//! C17 - instruction encoding and decoding are inverse, and all encoders agree.

use super::{catch, panic_signature, PropDef};
use crate::engine::*;
use crate::isa::{self, ref_decode, ref_encode, Insn};
use proptest::prelude::*;
use rbpf::insn_builder::{Arch, BpfCode, Cond, Endian, Instruction, IntoBytes, MemSize, Source};
use serde_json::{json, Value};

pub fn def() -> PropDef {
    PropDef {
        info: PropInfo {
            id: "C17",
            rule: "slots: every 8-byte slot value is decoded by ebpf::get_insn / to_insn_vec and re-encoded by Insn::to_array / to_vec and compared with an independent encoder/decoder (exhaustive per field: 256 opcodes x 256 register bytes, all 65536 offsets, boundary + random immediates in quick, all 2^32 immediates in thorough; all 256 x 256 ordered pairs of opcodes in adjacent slots with non-zero fields; pseudo-random programs of 65,535 - 1,048,579 slots (lengths around 2^16, the crate's 1,000,000-instruction limit and 2^20); random full slots at random indices of random-length programs via proptest; for every program the vector decoder ebpf::to_insn_vec must give, at every index, the independent decoding of that slot and re-encode to the program). builder: every insn_builder constructor x parameters x field values - both the bytes pushed into the BpfCode and the bytes `(&instruction).into_bytes()` returns without pushing - compared with the reference encoding of the expected opcode, with Insn::to_vec, and with assemble() of the matching text when unused fields are zero. Non-trivial = slot with a non-zero register byte, offset or immediate (enumerations are distinct by construction; random cases distinct by hash).",
            assumptions: &[
                "reference encoder/decoder in harness/vrun/src/isa.rs is written independently (to_le_bytes) and is itself correct",
                "builder constructors that do not denote an instruction (load() with a size other than double word, jump_conditional(Abs, Reg)) are outside the property",
            ],
        },
        run,
        replay,
        single_worker: false,
    }
}

// ---- slot checks ---------------------------------------------------------------------------

fn check_slot_in_prog(prog: &[u8], idx: usize) -> Verdict {
    let v = check_slot_only(prog, idx);
    if !matches!(v, Verdict::Pass) {
        return v;
    }
    check_whole_prog(prog)
}

fn check_slot_only(prog: &[u8], idx: usize) -> Verdict {
    let slot = &prog[idx * 8..idx * 8 + 8];
    let want = ref_decode(slot);
    let p2 = prog.to_vec();
    let got = match catch(move || rbpf::ebpf::get_insn(&p2, idx)) {
        Ok(g) => g,
        Err(m) => return Verdict::fail(panic_signature(&m), format!("get_insn panicked: {m}")),
    };
    if (got.opc, got.dst, got.src, got.off, got.imm) != (want.opc, want.dst, want.src, want.off, want.imm) {
        return Verdict::fail(
            "decode-mismatch",
            format!("slot {} at index {idx}: get_insn -> {got:?}, reference -> {want:?}", isa::hex(slot)),
        );
    }
    let arr = got.to_array();
    if arr[..] != slot[..] {
        return Verdict::fail("to_array-mismatch", format!("slot {} re-encoded by to_array as {}", isa::hex(slot), isa::hex(&arr)));
    }
    let v = got.to_vec();
    if v[..] != slot[..] {
        return Verdict::fail("to_vec-mismatch", format!("slot {} re-encoded by to_vec as {}", isa::hex(slot), isa::hex(&v)));
    }
    Verdict::Pass
}

fn short(b: &[u8]) -> String {
    if b.len() <= 512 {
        isa::hex(b)
    } else {
        format!("{}... ({} bytes)", isa::hex(&b[..64]), b.len())
    }
}

/// The vector decoder: one entry per slot, each equal to the independent decoding of that slot
/// whatever its neighbours are; re-encoding the entries gives the program back.
fn check_whole_prog(prog: &[u8]) -> Verdict {
    let p2 = prog.to_vec();
    let all = match catch(move || rbpf::ebpf::to_insn_vec(&p2)) {
        Ok(g) => g,
        Err(m) => return Verdict::fail(format!("to_insn_vec:{}", panic_signature(&m)), format!("ebpf::to_insn_vec panicked on {}: {m}", short(prog))),
    };
    if all.len() != prog.len() / 8 {
        return Verdict::fail("to_insn_vec:length", format!("ebpf::to_insn_vec returned {} entries for {} slots: {}", all.len(), prog.len() / 8, short(prog)));
    }
    let mut back_a = Vec::with_capacity(prog.len());
    let mut back_v = Vec::with_capacity(prog.len());
    for (k, got) in all.iter().enumerate() {
        let slot = &prog[k * 8..k * 8 + 8];
        let want = ref_decode(slot);
        if (got.opc, got.dst, got.src, got.off, got.imm) != (want.opc, want.dst, want.src, want.off, want.imm) {
            return Verdict::fail(
                "to_insn_vec:decode-mismatch",
                format!("program {}: to_insn_vec[{k}] -> {got:?}, reference decoding of slot {} -> {want:?}", short(prog), isa::hex(slot)),
            );
        }
        back_a.extend_from_slice(&got.to_array());
        back_v.extend_from_slice(&got.to_vec());
    }
    if back_a != prog || back_v != prog {
        return Verdict::fail("to_insn_vec:reencode-mismatch", format!("program {} re-encoded as {} / {}", short(prog), short(&back_a), short(&back_v)));
    }
    Verdict::Pass
}

fn check_fields(f: Insn) -> Verdict {
    let want = ref_encode(f.opc, f.dst, f.src, f.off, f.imm);
    let ins = rbpf::ebpf::Insn { opc: f.opc, dst: f.dst, src: f.src, off: f.off, imm: f.imm };
    let arr = ins.to_array();
    let vec = ins.to_vec();
    if arr != want {
        return Verdict::fail("to_array-mismatch", format!("{f:?}: to_array {} reference {}", isa::hex(&arr), isa::hex(&want)));
    }
    if vec[..] != want[..] {
        return Verdict::fail("to_vec-mismatch", format!("{f:?}: to_vec {} reference {}", isa::hex(&vec), isa::hex(&want)));
    }
    let back = rbpf::ebpf::get_insn(&arr, 0);
    if back != ins {
        return Verdict::fail("roundtrip-mismatch", format!("{f:?}: decode(encode(x)) = {back:?}"));
    }
    Verdict::Pass
}

fn slot_nontrivial(slot: &[u8]) -> bool {
    slot[1..].iter().any(|b| *b != 0)
}

// ---- builder -------------------------------------------------------------------------------

#[derive(Clone, Debug, PartialEq)]
pub struct BuilderCase {
    /// constructor family: alu, neg, swap, load, load_abs, load_ind, load_x, store, store_x, ja, jcond, call, exit
    ctor: String,
    /// first parameter (operation / size / cond / endian), as an index into the tables below
    p1: u8,
    /// Source: 0 = Imm, 1 = Reg
    reg: bool,
    /// Arch: true = X64
    x64: bool,
    dst: u8,
    src: u8,
    off: i16,
    imm: i32,
    /// which setters are called (bitmask dst, src, off, imm); unset fields stay at the default 0
    set_mask: u8,
}

const ALU_CTORS: [(&str, u8); 12] = [
    ("add", isa::ALU_ADD),
    ("sub", isa::ALU_SUB),
    ("mul", isa::ALU_MUL),
    ("div", isa::ALU_DIV),
    ("bit_or", isa::ALU_OR),
    ("bit_and", isa::ALU_AND),
    ("left_shift", isa::ALU_LSH),
    ("right_shift", isa::ALU_RSH),
    ("modulo", isa::ALU_MOD),
    ("bit_xor", isa::ALU_XOR),
    ("mov", isa::ALU_MOV),
    ("signed_right_shift", isa::ALU_ARSH),
];
const SIZES: [usize; 4] = [1, 2, 4, 8];
const CONDS: [u8; 11] = [
    isa::J_EQ, isa::J_GT, isa::J_GE, isa::J_LT, isa::J_LE, isa::J_SET, isa::J_NE, isa::J_SGT, isa::J_SGE, isa::J_SLT, isa::J_SLE,
];

fn memsize(i: u8) -> MemSize {
    match SIZES[i as usize % 4] {
        1 => MemSize::Byte,
        2 => MemSize::HalfWord,
        4 => MemSize::Word,
        _ => MemSize::DoubleWord,
    }
}
fn cond(i: u8) -> Cond {
    match CONDS[i as usize % 11] {
        isa::J_EQ => Cond::Equals,
        isa::J_GT => Cond::Greater,
        isa::J_GE => Cond::GreaterEquals,
        isa::J_LT => Cond::Lower,
        isa::J_LE => Cond::LowerEquals,
        isa::J_SET => Cond::BitAnd,
        isa::J_NE => Cond::NotEquals,
        isa::J_SGT => Cond::GreaterSigned,
        isa::J_SGE => Cond::GreaterEqualsSigned,
        isa::J_SLT => Cond::LowerSigned,
        _ => Cond::LowerEqualsSigned,
    }
}

/// Apply the setters selected by the case to any builder instruction.
fn apply<I: Instruction>(mut i: I, c: &BuilderCase) -> I {
    if c.set_mask & 1 != 0 {
        i = i.set_dst(c.dst);
    }
    if c.set_mask & 2 != 0 {
        i = i.set_src(c.src);
    }
    if c.set_mask & 4 != 0 {
        i = i.set_off(c.off);
    }
    if c.set_mask & 8 != 0 {
        i = i.set_imm(c.imm);
    }
    i
}

/// (expected opcode, assembler text when the instruction has a spelling and the unused fields
/// are zero)
fn expected(c: &BuilderCase, f: &Insn) -> Option<(u8, Option<String>)> {
    let sfx = |b: usize| isa::SIZE_SUFFIX.iter().find(|(_, n)| *n == b).unwrap().0;
    let bits = if c.x64 { "64" } else { "32" };
    let memop = |r: u8, off: i16| if off >= 0 { format!("[r{r}+{off}]") } else { format!("[r{r}{off}]") };
    Some(match c.ctor.as_str() {
        "alu" => {
            let (_, op) = ALU_CTORS[c.p1 as usize % 12];
            let name = isa::ALU_NAMES.iter().find(|(_, o)| *o == op).unwrap().0;
            let opc = isa::alu_opc(c.x64, op, c.reg);
            let text = if c.reg {
                (f.off == 0 && f.imm == 0).then(|| format!("{name}{bits} r{}, r{}", f.dst, f.src))
            } else {
                (f.off == 0 && f.src == 0).then(|| format!("{name}{bits} r{}, {}", f.dst, f.imm))
            };
            (opc, text)
        }
        "neg" => {
            let opc = if c.x64 { isa::NEG64 } else { isa::NEG32 };
            (opc, (f.src == 0 && f.off == 0 && f.imm == 0).then(|| format!("neg{bits} r{}", f.dst)))
        }
        "swap" => {
            let be = c.p1 % 2 == 1;
            let opc = if be { isa::BE } else { isa::LE };
            let text = (f.src == 0 && f.off == 0 && matches!(f.imm, 16 | 32 | 64))
                .then(|| format!("{}{} r{}", if be { "be" } else { "le" }, f.imm, f.dst));
            (opc, text)
        }
        "load" => {
            // only the double-word form denotes an instruction (first slot of lddw); the other
            // sizes still have the opcode the builder composes: class LD | mode IMM | size
            let b = SIZES[c.p1 as usize % 4];
            if b != 8 {
                return Some((isa::ldabs_opc(b) & 0x18, None));
            }
            (isa::LDDW, None)
        }
        "load_abs" => {
            let b = SIZES[c.p1 as usize % 4];
            (isa::ldabs_opc(b), (f.dst == 0 && f.src == 0 && f.off == 0).then(|| format!("ldabs{} {}", sfx(b), f.imm)))
        }
        "load_ind" => {
            let b = SIZES[c.p1 as usize % 4];
            (isa::ldind_opc(b), (f.dst == 0 && f.off == 0).then(|| format!("ldind{} r{}, {}", sfx(b), f.src, f.imm)))
        }
        "load_x" => {
            let b = SIZES[c.p1 as usize % 4];
            (isa::ldx_opc(b), (f.imm == 0).then(|| format!("ldx{} r{}, {}", sfx(b), f.dst, memop(f.src, f.off))))
        }
        "store" => {
            let b = SIZES[c.p1 as usize % 4];
            (isa::st_opc(b), (f.src == 0).then(|| format!("st{} {}, {}", sfx(b), memop(f.dst, f.off), f.imm)))
        }
        "store_x" => {
            let b = SIZES[c.p1 as usize % 4];
            (isa::stx_opc(b), (f.imm == 0).then(|| format!("stx{} {}, r{}", sfx(b), memop(f.dst, f.off), f.src)))
        }
        "ja" => (isa::JA, (f.dst == 0 && f.src == 0 && f.imm == 0).then(|| format!("ja {:+}", f.off))),
        "jcond" => {
            let cnd = CONDS[c.p1 as usize % 11];
            let name = isa::JMP_NAMES.iter().find(|(_, o)| *o == cnd).unwrap().0;
            let opc = isa::jmp_opc(true, cnd, c.reg);
            let text = if c.reg {
                (f.imm == 0).then(|| format!("{name} r{}, r{}, {:+}", f.dst, f.src, f.off))
            } else {
                (f.src == 0).then(|| format!("{name} r{}, {}, {:+}", f.dst, f.imm, f.off))
            };
            (opc, text)
        }
        "call" => (isa::CALL, (f.dst == 0 && f.src == 0 && f.off == 0).then(|| format!("call {}", f.imm))),
        "exit" => (isa::EXIT, (f.dst == 0 && f.src == 0 && f.off == 0 && f.imm == 0).then(|| "exit".to_string())),
        _ => return None,
    })
}

/// Pushes the instruction into `code`; `direct` collects what `(&instruction).into_bytes()` - the
/// IntoBytes implementation on a reference, without pushing - returns for the same instruction.
fn build(c: &BuilderCase, code: &mut BpfCode, direct: &mut Vec<u8>) {
    macro_rules! fin {
        ($x:expr) => {{
            let x = $x;
            direct.extend_from_slice(&(&x).into_bytes());
            x.push();
        }};
    }
    let source = if c.reg { Source::Reg } else { Source::Imm };
    let arch = if c.x64 { Arch::X64 } else { Arch::X32 };
    match c.ctor.as_str() {
        "alu" => {
            let m = match ALU_CTORS[c.p1 as usize % 12].0 {
                "add" => code.add(source, arch),
                "sub" => code.sub(source, arch),
                "mul" => code.mul(source, arch),
                "div" => code.div(source, arch),
                "bit_or" => code.bit_or(source, arch),
                "bit_and" => code.bit_and(source, arch),
                "left_shift" => code.left_shift(source, arch),
                "right_shift" => code.right_shift(source, arch),
                "modulo" => code.modulo(source, arch),
                "bit_xor" => code.bit_xor(source, arch),
                "mov" => code.mov(source, arch),
                _ => code.signed_right_shift(source, arch),
            };
            fin!(apply(m, c));
        }
        "neg" => {
            fin!(apply(code.negate(arch), c));
        }
        "swap" => {
            let e = if c.p1 % 2 == 1 { Endian::Big } else { Endian::Little };
            fin!(apply(code.swap_bytes(e), c));
        }
        "load" => {
            fin!(apply(code.load(memsize(c.p1)), c));
        }
        "load_abs" => {
            fin!(apply(code.load_abs(memsize(c.p1)), c));
        }
        "load_ind" => {
            fin!(apply(code.load_ind(memsize(c.p1)), c));
        }
        "load_x" => {
            fin!(apply(code.load_x(memsize(c.p1)), c));
        }
        "store" => {
            fin!(apply(code.store(memsize(c.p1)), c));
        }
        "store_x" => {
            fin!(apply(code.store_x(memsize(c.p1)), c));
        }
        "ja" => {
            fin!(apply(code.jump_unconditional(), c));
        }
        "jcond" => {
            fin!(apply(code.jump_conditional(cond(c.p1), source), c));
        }
        "call" => {
            fin!(apply(code.call(), c));
        }
        _ => {
            fin!(apply(code.exit(), c));
        }
    }
}

fn effective_fields(c: &BuilderCase) -> Insn {
    Insn {
        opc: 0,
        dst: if c.set_mask & 1 != 0 { c.dst } else { 0 },
        src: if c.set_mask & 2 != 0 { c.src } else { 0 },
        off: if c.set_mask & 4 != 0 { c.off } else { 0 },
        imm: if c.set_mask & 8 != 0 { c.imm } else { 0 },
    }
}

/// Check a chain of builder pushes: the code buffer must be the concatenation of the expected
/// encodings.
fn check_builder(chain: &[BuilderCase]) -> Verdict {
    let mut want: Vec<u8> = Vec::new();
    let mut texts: Vec<Option<String>> = Vec::new();
    let mut kept: Vec<&BuilderCase> = Vec::new();
    for c in chain {
        let f = effective_fields(c);
        if let Some((opc, text)) = expected(c, &f) {
            want.extend_from_slice(&ref_encode(opc, f.dst, f.src, f.off, f.imm));
            texts.push(text);
            kept.push(c);
        }
    }
    if kept.is_empty() {
        return Verdict::Discard("not-an-instruction");
    }
    let kept_owned: Vec<BuilderCase> = kept.iter().map(|c| (*c).clone()).collect();
    let (got, direct) = match catch(move || {
        let mut code = BpfCode::new();
        let mut direct = Vec::new();
        for c in &kept_owned {
            build(c, &mut code, &mut direct);
        }
        (code.into_bytes().to_vec(), direct)
    }) {
        Ok(g) => g,
        Err(m) => return Verdict::fail(panic_signature(&m), format!("builder panicked: {m}")),
    };
    if direct != want {
        return Verdict::fail(
            "builder-into_bytes-on-reference",
            format!("builder chain {:?}
 (&instruction).into_bytes() gave {}
 expected {}", kept, isa::hex(&direct), isa::hex(&want)),
        );
    }
    if got != want {
        return Verdict::fail(
            "builder-vs-reference",
            format!("builder chain {:?}\n emitted {}\n expected {}", kept, isa::hex(&got), isa::hex(&want)),
        );
    }
    // the crate's own instruction encoder must agree slot by slot
    for (k, slot) in want.chunks_exact(8).enumerate() {
        let d = ref_decode(slot);
        let v = rbpf::ebpf::Insn { opc: d.opc, dst: d.dst, src: d.src, off: d.off, imm: d.imm }.to_vec();
        if v[..] != got[k * 8..k * 8 + 8] {
            return Verdict::fail("builder-vs-insn-encoder", format!("{:?}: builder {} Insn::to_vec {}", kept[k], isa::hex(&got[k * 8..k * 8 + 8]), isa::hex(&v)));
        }
    }
    // and the assembler, when every instruction of the chain has a spelling
    if texts.iter().all(|t| t.is_some()) {
        let src: Vec<String> = texts.into_iter().map(|t| t.unwrap()).collect();
        let src = src.join("\n");
        let s2 = src.clone();
        match catch(move || rbpf::assembler::assemble(&s2)) {
            Ok(Ok(bytes)) => {
                if bytes != got {
                    return Verdict::fail("builder-vs-assembler", format!("text {src:?}: assembler {} builder {}", isa::hex(&bytes), isa::hex(&got)));
                }
            }
            Ok(Err(e)) => return Verdict::fail("builder-vs-assembler", format!("assembler rejects {src:?}: {e}")),
            Err(m) => return Verdict::fail(panic_signature(&m), format!("assembler panicked on {src:?}: {m}")),
        }
    }
    Verdict::Pass
}

fn builder_to_json(chain: &[BuilderCase]) -> Value {
    Value::Array(
        chain
            .iter()
            .map(|c| json!({"ctor": c.ctor, "p1": c.p1, "reg": c.reg, "x64": c.x64, "dst": c.dst, "src": c.src, "off": c.off, "imm": c.imm, "set_mask": c.set_mask}))
            .collect(),
    )
}

fn builder_from_json(v: &Value) -> Vec<BuilderCase> {
    v.as_array()
        .map(|a| {
            a.iter()
                .map(|c| BuilderCase {
                    ctor: c["ctor"].as_str().unwrap_or("exit").to_string(),
                    p1: c["p1"].as_u64().unwrap_or(0) as u8,
                    reg: c["reg"].as_bool().unwrap_or(false),
                    x64: c["x64"].as_bool().unwrap_or(false),
                    dst: c["dst"].as_u64().unwrap_or(0) as u8,
                    src: c["src"].as_u64().unwrap_or(0) as u8,
                    off: c["off"].as_i64().unwrap_or(0) as i16,
                    imm: c["imm"].as_i64().unwrap_or(0) as i32,
                    set_mask: c["set_mask"].as_u64().unwrap_or(15) as u8,
                })
                .collect()
        })
        .unwrap_or_default()
}

// ---- generators ----------------------------------------------------------------------------

pub fn imm_strategy() -> impl Strategy<Value = i32> {
    prop_oneof![
        3 => prop::sample::select(vec![0, 1, -1, 2, 16, 32, 64, 127, 128, 255, 256, 0x7fff, 0x8000, 0xffff, 0x10000, i32::MAX, i32::MIN, i32::MIN + 1, -128, -129, -32768, -32769, 0x00ff00ff, 0x0100_0000, -0x0100_0000]),
        4 => any::<i32>(),
        1 => (0i32..32).prop_map(|s| 1i32.wrapping_shl(s as u32)),
    ]
}

pub fn off_strategy() -> impl Strategy<Value = i16> {
    prop_oneof![
        3 => prop::sample::select(vec![0i16, 1, -1, 2, -2, 127, 128, -128, -129, 255, 256, i16::MAX, i16::MIN, i16::MIN + 1, 0x00ff, -256]),
        4 => any::<i16>(),
    ]
}

fn builder_case() -> impl Strategy<Value = BuilderCase> {
    let ctor = prop::sample::select(vec![
        "alu", "alu", "alu", "neg", "swap", "load", "load_abs", "load_ind", "load_x", "store", "store_x", "ja", "jcond", "jcond", "call", "exit",
    ]);
    (ctor, any::<u8>(), any::<bool>(), any::<bool>(), 0u8..16, 0u8..16, off_strategy(), imm_strategy(), prop_oneof![2 => Just(15u8), 1 => 0u8..16])
        .prop_map(|(ctor, p1, reg, x64, dst, src, off, imm, set_mask)| {
            let mut c = BuilderCase { ctor: ctor.to_string(), p1, reg, x64, dst, src, off, imm, set_mask };
            // half of the cases are "canonical": only the fields the instruction uses are set, so
            // that the assembler comparison applies
            if p1 & 0x80 != 0 {
                canonicalise(&mut c);
            }
            c
        })
}

fn canonicalise(c: &mut BuilderCase) {
    let probe = Insn { opc: 0, dst: 0, src: 0, off: 0, imm: 0 };
    if let Some((opc, _)) = expected(c, &probe) {
        if let Some(k) = isa::kind_of(opc) {
            let u = isa::uses_of(k);
            let mut m = 0u8;
            if u.dst {
                m |= 1;
            }
            if u.src && k != isa::Kind::Call {
                m |= 2;
            }
            if u.off {
                m |= 4;
            }
            if u.imm && k != isa::Kind::Xadd {
                m |= 8;
            }
            c.set_mask &= m;
            c.set_mask |= m;
            if k == isa::Kind::Endian {
                c.imm = [16, 32, 64][(c.imm as u32 % 3) as usize];
            }
        }
    }
}

fn prog_with_slot() -> impl Strategy<Value = (Vec<u8>, usize)> {
    (1usize..40)
        .prop_flat_map(|n| (prop::collection::vec(any::<u8>(), n * 8), 0..n))
        .prop_flat_map(|(bytes, idx)| {
            // boundary-heavy slot at idx
            (Just(bytes), Just(idx), any::<u8>(), any::<u8>(), off_strategy(), imm_strategy(), any::<bool>())
        })
        .prop_map(|(mut bytes, idx, opc, regs, off, imm, structured)| {
            if structured {
                let e = ref_encode(opc, regs & 15, regs >> 4, off, imm);
                bytes[idx * 8..idx * 8 + 8].copy_from_slice(&e);
            }
            (bytes, idx)
        })
}

// ---- run -----------------------------------------------------------------------------------

fn run(ctx: &Ctx) {
    // (a) exhaustive enumerations, split over the workers
    let w = ctx.worker as u64;
    let n = ctx.nworkers as u64;
    {
        // 256 opcodes x 256 register bytes, with two offset/immediate backgrounds
        for opc in 0u32..256 {
            if opc as u64 % n != w {
                continue;
            }
            for regs in 0u32..256 {
                for (off, imm) in [(0i16, 0i32), (-2, i32::MIN + 5), (0x1234, 0x789abcde)] {
                    let slot = ref_encode(opc as u8, (regs & 15) as u8, (regs >> 4) as u8, off, imm);
                    let v = check_slot_in_prog(&slot, 0);
                    {
                        let mut st = ctx.stats();
                        st.eval();
                        st.class("enum:opcode-x-regbyte");
                        if slot_nontrivial(&slot) {
                            st.distinct_by_construction += 1;
                        }
                    }
                    if ctx.enumerate_case(v, "slot", || json!({"prog": isa::hex(&slot), "idx": 0})) {
                        return;
                    }
                }
            }
        }
        // all 256 x 256 ordered pairs of opcodes in adjacent slots (a decoder that treats the slot
        // after some opcode specially - wide loads - must still report every field of it), other
        // fields non-zero, alone and between two other slots
        for a in 0u32..256 {
            if a as u64 % n != w {
                continue;
            }
            for b in 0u32..256 {
                let s1 = ref_encode(a as u8, (b & 15) as u8 ^ 5, (a & 15) as u8 ^ 9, -2 - b as i16, 0x1234_5678 ^ (b as i32) << 20);
                let s2 = ref_encode(b as u8, 0x3 ^ (a & 15) as u8, 0xc ^ (b & 15) as u8, 0x7ffe - a as i16, i32::MIN + 0x1122 + a as i32);
                let filler = ref_encode(0xb7, 1, 2, 3, 4);
                for lead in [0usize, 1] {
                    let mut prog = Vec::with_capacity(32);
                    for _ in 0..lead {
                        prog.extend_from_slice(&filler);
                    }
                    prog.extend_from_slice(&s1);
                    prog.extend_from_slice(&s2);
                    if lead == 1 {
                        prog.extend_from_slice(&filler);
                    }
                    let mut v = check_slot_in_prog(&prog, lead);
                    if matches!(v, Verdict::Pass) {
                        v = check_slot_in_prog(&prog, lead + 1);
                    }
                    {
                        let mut st = ctx.stats();
                        st.eval();
                        st.class("enum:opcode-pair");
                        st.distinct_by_construction += 1;
                    }
                    if ctx.enumerate_case(v, "slot", || json!({"prog": isa::hex(&prog), "idx": lead + 1})) {
                        return;
                    }
                }
            }
        }
        // program lengths around the crate's instruction limit and around 2^20: the decoders have
        // no business knowing about the verifier's limit
        if ctx.worker == 0 {
            for nslots in [65_535usize, 65_536, 65_537, 999_999, 1_000_000, 1_000_001, 1 << 20, (1 << 20) + 3] {
                let mut prog = Vec::with_capacity(nslots * 8);
                let mut x = 0x9e37_79b9_7f4a_7c15u64 ^ nslots as u64;
                for _ in 0..nslots {
                    x ^= x << 13;
                    x ^= x >> 7;
                    x ^= x << 17;
                    prog.extend_from_slice(&x.to_le_bytes());
                }
                let mut v = check_whole_prog(&prog);
                if matches!(v, Verdict::Pass) {
                    v = check_slot_only(&prog, nslots - 1);
                }
                {
                    let mut st = ctx.stats();
                    st.eval();
                    st.class("enum:long-program-length");
                    st.distinct_by_construction += 1;
                }
                if ctx.enumerate_case(v, "xorshift", || json!({"nslots": nslots})) {
                    return;
                }
            }
        }
        // all 65536 offsets
        for o in 0u32..65536 {
            if o as u64 % n != w {
                continue;
            }
            let f = Insn { opc: 0x05, dst: 3, src: 9, off: o as u16 as i16, imm: -7 };
            let v = check_fields(f);
            {
                let mut st = ctx.stats();
                st.eval();
                st.class("enum:offset");
                st.distinct_by_construction += 1;
            }
            if ctx.enumerate_case(v, "fields", || fields_json(&f)) {
                return;
            }
        }
        // immediates: quick = every value whose set bits lie in one byte or that is within 300 of
        // a power of two / its negation, thorough = all 2^32
        let full = ctx.tier == Tier::Thorough;
        let mut count = 0u64;
        let mut check_imm = |imm: i32| -> bool {
            let f = Insn { opc: 0xb7, dst: 15, src: 8, off: -32768, imm };
            let v = check_fields(f);
            count += 1;
            if v.is_fail() {
                ctx.enumerate_case(v, "fields", || fields_json(&f));
                return true;
            }
            false
        };
        if full {
            let per = (1u64 << 32) / n;
            let lo = w * per;
            let hi = if w == n - 1 { 1u64 << 32 } else { lo + per };
            for x in lo..hi {
                if check_imm(x as u32 as i32) {
                    return;
                }
            }
        } else {
            for shift in [0u32, 8, 16, 24] {
                for b in 0u32..256 {
                    if (b as u64 + shift as u64) % n == w && check_imm((b << shift) as i32) {
                        return;
                    }
                }
            }
            for p in 0u32..32 {
                if p as u64 % n != w {
                    continue;
                }
                for d in -300i64..=300 {
                    let x = ((1i64 << p) + d) as u32;
                    if check_imm(x as i32) || check_imm((x as i32).wrapping_neg()) {
                        return;
                    }
                }
            }
        }
        let mut st = ctx.stats();
        st.evaluations += count;
        st.class_n("enum:immediate", count);
        st.distinct_by_construction += count.saturating_sub(1);
        st.extra.insert("immediates_enumerated".into(), json!(count));
        if full {
            st.exhaustive = Some(true);
        }
    }

    // (b) random full slots at random indices of random-length programs
    let cases = ctx.share(ctx.tier.pick(1_000_000, 20_000_000));
    ctx.search("slots", "slot", cases, prog_with_slot(), |(prog, idx), want_case| {
        let v = check_slot_in_prog(prog, *idx);
        if !want_case {
            let mut st = ctx.stats();
            st.eval();
            st.class("random:slot-in-program");
            if *idx > 0 {
                st.class("random:index>0");
            }
            let slot = &prog[idx * 8..idx * 8 + 8];
            if slot_nontrivial(slot) {
                st.nontrivial(fnv(slot) ^ (*idx as u64));
            }
            st.sample(3, || json!({"kind": "slot", "prog": isa::hex(prog), "idx": idx}));
        }
        (v, if want_case { json!({"prog": isa::hex(prog), "idx": idx}) } else { Value::Null })
    });

    // (c) builder constructors, single and chained
    let cases = ctx.share(ctx.tier.pick(600_000, 12_000_000));
    ctx.search("builder", "builder", cases, prop::collection::vec(builder_case(), 1..4), |chain, want_case| {
        let v = check_builder(chain);
        if !want_case {
            let mut st = ctx.stats();
            st.eval();
            for c in chain {
                st.class(&format!("builder:{}", c.ctor));
            }
            if chain.len() > 1 {
                st.class("builder:chained");
            }
            if !matches!(v, Verdict::Discard(_)) {
                st.nontrivial(fnv_str(&format!("{chain:?}")));
            }
            st.sample(6, || json!({"kind": "builder", "chain": builder_to_json(chain)}));
        }
        (v, if want_case { builder_to_json(chain) } else { Value::Null })
    });
}

fn fields_json(f: &Insn) -> Value {
    json!({"opc": f.opc, "dst": f.dst, "src": f.src, "off": f.off, "imm": f.imm})
}

fn replay(_ctx: &Ctx, kind: &str, case: &Value) -> Verdict {
    match kind {
        "slot" => {
            let prog = isa::unhex(case["prog"].as_str().unwrap_or(""));
            let idx = case["idx"].as_u64().unwrap_or(0) as usize;
            if prog.len() < (idx + 1) * 8 {
                return Verdict::Discard("bad-replay");
            }
            check_slot_in_prog(&prog, idx)
        }
        "xorshift" => {
            let nslots = case["nslots"].as_u64().unwrap_or(1) as usize;
            let mut prog = Vec::with_capacity(nslots * 8);
            let mut x = 0x9e37_79b9_7f4a_7c15u64 ^ nslots as u64;
            for _ in 0..nslots {
                x ^= x << 13;
                x ^= x >> 7;
                x ^= x << 17;
                prog.extend_from_slice(&x.to_le_bytes());
            }
            check_whole_prog(&prog)
        }
        "fields" => check_fields(Insn {
            opc: case["opc"].as_u64().unwrap_or(0) as u8,
            dst: case["dst"].as_u64().unwrap_or(0) as u8,
            src: case["src"].as_u64().unwrap_or(0) as u8,
            off: case["off"].as_i64().unwrap_or(0) as i16,
            imm: case["imm"].as_i64().unwrap_or(0) as i32,
        }),
        "builder" => check_builder(&builder_from_json(case)),
        _ => Verdict::Discard("unknown-kind"),
    }
}
