//! C05 - a program accepted by the default verifier can never crash the interpreter.
//! C12 - compiling any verified program returns Ok or Err, never panics, and is repeatable.

use super::PropDef;
use crate::engine::*;
use crate::execcheck::outcome_sig;
use crate::gen;
use crate::isa::{self, *};
use crate::refver;
use crate::runner::*;
use crate::soup;
use proptest::prelude::*;
use serde_json::{json, Value};
use std::cell::RefCell;

pub fn def05() -> PropDef {
    PropDef {
        info: PropInfo {
            id: "C05",
            rule: "near-valid byte strings (generator of C06: all opcodes, register bytes, jump/call target classes, last-instruction kinds, 0-2 mutations) and structured programs with 0-2 byte-level mutations, kept only if the REAL default verifier accepts them (acceptance is the premise; rate reported); each accepted program is interpreted in a forked child on a random VM kind, packet, metadata buffer, helper set and - in a third of the cases - one or two registered ranges of allowed memory, with an instruction budget. Oracle: the run returns Ok or Err (budget exhaustion = still running, fine); a panic, abort or fatal signal is a violation, with the panic location in the signature. Non-trivial = accepted program that executes >= 3 instructions and contains a jump or call; distinct by hash of program+input.",
            assumptions: &["instruction budget 20000 (hook H1) stands for 'keeps running'", "helpers are total functions of their arguments"],
        },
        run: run05,
        replay: replay05,
        single_worker: false,
    }
}

pub fn def12() -> PropDef {
    PropDef {
        info: PropInfo {
            id: "C12",
            rule: "verifier-accepted near-valid byte strings, structured programs and dense straight-line programs of every length 1-400 built from the instructions with the largest machine-code expansion (incl. 32k-100k instruction programs for the JIT and 1,000,000-instruction programs in the thorough tier), with helper sets in which called ids are present or missing; in a forked child jit_compile and cranelift_compile each run twice under catch_unwind. Oracle: Ok or Err, never a panic / abort / signal (the crate's own emit bounds assertion is active); both compilations give the same verdict and - for the JIT, through hook H2 - byte-identical code. Non-trivial = accepted program with at least one jump or call, or of at least 64 instructions; distinct by hash.",
            assumptions: &["code-buffer overruns are detected by rbpf's own emit_bytes! assertion (debug assertions are on for the rbpf crate in the harness profile) and by process death", "Cranelift machine code is not compared byte for byte (no hook), only the verdicts"],
        },
        run: run12,
        replay: replay12,
        single_worker: false,
    }
}

#[derive(Clone, Debug)]
pub struct Env {
    vm_sel: u8,
    pkt: Vec<u8>,
    mbuff: Vec<u8>,
    helpers: Vec<(u32, u8)>,
    /// register the helper ids the program calls (so that calls are reachable)
    register_called: u8,
    /// ranges registered as allowed memory (inside a page the runner owns)
    allowed: Vec<(u16, u16)>,
}

fn env() -> impl Strategy<Value = Env> {
    (any::<u8>(), prop::collection::vec(any::<u8>(), 0..40), prop::collection::vec(any::<u8>(), 16..48), prop::collection::vec((any::<u32>(), 0u8..8), 0..3), any::<u8>(), prop_oneof![2 => Just(vec![]), 1 => prop::collection::vec((0u16..4000, 1u16..200), 1..3)])
        .prop_map(|(vm_sel, pkt, mbuff, helpers, register_called, allowed)| Env { vm_sel, pkt, mbuff, helpers, register_called, allowed })
}

pub fn make_case(prog: Vec<u8>, e: &Env) -> ExecCase {
    let vm = match e.vm_sel % 4 {
        0 => VmKind::NoData,
        1 => VmKind::Raw,
        2 => VmKind::Mbuff { data_off: 0, end_off: 8 },
        _ => VmKind::Fixed { data_off: 0x40, end_off: 0x50 },
    };
    let mut case = ExecCase::new(vm, prog);
    if !matches!(vm, VmKind::NoData) {
        case.pkt = e.pkt.clone();
    }
    if matches!(vm, VmKind::Mbuff { .. }) {
        case.mbuff = e.mbuff.clone();
    }
    case.helpers = e.helpers.clone();
    case.allowed = e.allowed.clone();
    for x in decode_prog(&case.prog) {
        if x.opc == CALL && x.src == 0 && e.register_called % 4 != 0 {
            case.helpers.push((x.imm as u32, (x.imm as u32 % 8) as u8));
        }
    }
    case.helpers.sort();
    case.helpers.dedup_by_key(|h| h.0);
    case.budget = 20_000;
    case
}

/// structured program with byte-level mutations
#[derive(Clone, Debug)]
pub struct Mutant {
    p: gen::Program,
    muts: Vec<soup::Mutation>,
}

fn mutant() -> impl Strategy<Value = Mutant> {
    (gen::program(true, false), prop::collection::vec(soup::mutation(), 0..3)).prop_map(|(p, muts)| Mutant { p, muts })
}

fn has_jump_or_call(prog: &[u8]) -> bool {
    decode_prog(prog).iter().any(|x| matches!(kind_of(x.opc), Some(Kind::Ja | Kind::JmpImm | Kind::JmpReg | Kind::Call)))
}

pub fn check05(runner: &mut Runner, case: &ExecCase, st: Option<&mut Stats>, class: &str) -> Verdict {
    let r = runner.run(case, &[Engine::Interp]);
    let o = &r[0].outcome;
    if let Some(st) = st {
        st.eval();
        match o {
            Outcome::VerifierErr(_) => {
                st.class(&format!("{class}:rejected"));
                return Verdict::Pass;
            }
            _ => st.class(&format!("{class}:accepted")),
        }
        let last = decode_prog(&case.prog).last().map(|x| x.opc).unwrap_or(0);
        st.class(if last == EXIT { "last:exit" } else { "last:ja" });
        match o {
            Outcome::Ok(_) => st.class("outcome:ok"),
            Outcome::Err(m) if m.contains("budget exhausted") => st.class("outcome:still-running"),
            Outcome::Err(_) => st.class("outcome:err"),
            _ => {}
        }
        if r[0].insns >= 3 && has_jump_or_call(&case.prog) {
            st.nontrivial(case.hash());
        }
        st.sample(3, || json!({"vm": case.vm.to_json(), "listing": isa::listing(&case.prog, 24), "outcome": o.short(), "executed": r[0].insns}));
    }
    match o {
        Outcome::Ok(_) | Outcome::Err(_) => Verdict::Pass,
        Outcome::VerifierErr(_) => Verdict::Discard("not-accepted"),
        Outcome::Hang { .. } => Verdict::Inconclusive("interpreter hit the 180 s watchdog despite the instruction budget".into()),
        other => Verdict::fail(
            format!("interp:{}", outcome_sig(other)),
            format!("{} on a verifier-accepted program\nvm={:?} pkt={} helpers={:?}\n{}", other.short(), case.vm, isa::hex(&case.pkt), case.helpers, isa::listing(&case.prog, 60).join("\n")),
        ),
    }
}

fn run05(ctx: &Ctx) {
    let runner = RefCell::new(Runner::new());
    ctx.shrink_iters.set(4000);
    let cases = ctx.share(ctx.tier.pick(160_000, 4_800_000));
    ctx.search("soup", "exec", cases, (soup::soup(24), env()), |(s, e), want_case| {
        let prog = soup::lower(s);
        // cheap pre-filter with the reference verifier (the real one decides inside the child)
        if refver::violations(&prog).len() > 1 {
            if !want_case {
                let mut st = ctx.stats();
                st.eval();
                st.class("soup:rejected");
            }
            return (Verdict::Pass, Value::Null);
        }
        let case = make_case(prog, e);
        let mut st = ctx.stats();
        let frozen = st.is_frozen() || want_case;
        let v = check05(&mut runner.borrow_mut(), &case, if frozen { None } else { Some(&mut st) }, "soup");
        (v, if want_case { case.to_json() } else { Value::Null })
    });
    let cases = ctx.share(ctx.tier.pick(32_000, 960_000));
    ctx.shrink_iters.set(1500);
    ctx.search("mutants", "exec", cases, (mutant(), env(), any::<u16>()), |(m, e, cross), want_case| {
        let base = gen::lower(&m.p);
        let mut prog = base.prog.clone();
        soup::apply_all(&m.muts, &mut prog);
        // a quarter of the programs start with a legacy packet load whose effective address is
        // valid but lies in another region: packet + (stack slot - packet), or the metadata buffer
        // reached relative to the packet. Relative jumps and calls are unaffected by a prefix.
        if cross & 3 == 0 && !base.pkt.is_empty() && prog.len() % 8 == 0 {
            let w = [1usize, 2, 4, 8][(*cross as usize >> 2) & 3];
            let slot = -8 * (1 + (*cross as i32 >> 4) % 64);
            let mut pre: Vec<Insn> = Vec::new();
            match base.vm {
                VmKind::Raw => {
                    pre.push(Insn::new(alu_opc(true, ALU_MOV, true), 2, 10, 0, 0));
                    pre.push(Insn::new(alu_opc(true, ALU_SUB, true), 2, 1, 0, 0));
                    pre.push(Insn::new(alu_opc(true, ALU_ADD, false), 2, 0, 0, slot));
                    pre.push(Insn::new(ldind_opc(w), 0, 2, 0, 0));
                }
                VmKind::Mbuff { data_off, .. } if data_off < 32000 && base.mbuff.len() >= data_off + 8 => {
                    // r3 = packet pointer; r2 = metadata buffer - packet
                    pre.push(Insn::new(ldx_opc(8), 3, 1, data_off as i16, 0));
                    pre.push(Insn::new(alu_opc(true, ALU_MOV, true), 2, 1, 0, 0));
                    pre.push(Insn::new(alu_opc(true, ALU_SUB, true), 2, 3, 0, 0));
                    pre.push(Insn::new(ldind_opc(w), 0, 2, 0, 0));
                }
                _ => {}
            }
            if !pre.is_empty() {
                let mut all = encode_prog(&pre);
                all.extend_from_slice(&prog);
                prog = all;
                ctx.stats().class("mutant:starts-with-cross-region-packet-load");
            }
        }
        let mut case = make_case(prog, e);
        case.vm = base.vm;
        case.pkt = base.pkt.clone();
        case.mbuff = base.mbuff.clone();
        case.helpers.extend(base.helpers.iter().cloned());
        case.helpers.sort();
        case.helpers.dedup_by_key(|h| h.0);
        let mut st = ctx.stats();
        let frozen = st.is_frozen() || want_case;
        let v = check05(&mut runner.borrow_mut(), &case, if frozen { None } else { Some(&mut st) }, "mutant");
        (v, if want_case { case.to_json() } else { Value::Null })
    });
}

fn replay05(_ctx: &Ctx, _kind: &str, case: &Value) -> Verdict {
    let c = ExecCase::from_json(case);
    check05(&mut Runner::new(), &c, None, "replay")
}

// ---- C12 -------------------------------------------------------------------------------------

pub fn check12(runner: &mut Runner, case: &mut ExecCase, engines: &[Engine], st: Option<&mut Stats>, class: &str) -> Verdict {
    case.compile_only = true;
    case.compile_twice = true;
    let res = runner.run(case, engines);
    if let Some(st) = st {
        st.eval();
        if matches!(res[0].outcome, Outcome::VerifierErr(_)) {
            st.class(&format!("{class}:rejected"));
            return Verdict::Pass;
        }
        st.class(&format!("{class}:accepted"));
        let n = case.prog.len() / 8;
        st.class(match n {
            0..=8 => "size:1-8",
            9..=64 => "size:9-64",
            65..=1000 => "size:65-1000",
            1001..=40000 => "size:1001-40000",
            _ => "size:>40000",
        });
        for r in &res {
            match &r.outcome {
                Outcome::CompiledOnly => st.class(&format!("{}:ok", r.engine.name())),
                Outcome::CompileErr(_) => st.class(&format!("{}:err", r.engine.name())),
                _ => {}
            }
        }
        if has_jump_or_call(&case.prog) || case.prog.len() >= 64 * 8 {
            st.nontrivial(case.hash());
        }
        st.sample(3, || json!({"helpers": case.helpers, "listing": isa::listing(&case.prog, 24), "outcomes": res.iter().map(|r| format!("{}: {}", r.engine.name(), r.outcome.short())).collect::<Vec<_>>()}));
    }
    for r in &res {
        let eng = r.engine.name();
        let desc = || format!("vm={:?} helpers={:?}\n{}", case.vm, case.helpers, isa::listing(&case.prog, 60).join("\n"));
        match &r.outcome {
            Outcome::VerifierErr(_) => return Verdict::Discard("not-accepted"),
            Outcome::CompiledOnly | Outcome::CompileErr(_) => {
                let first_ok = matches!(r.outcome, Outcome::CompiledOnly);
                if let Some((st2, hash2)) = r.second {
                    let second_ok = st2 == ST_OK;
                    if st2 == ST_COMPILE_PANIC {
                        return Verdict::fail(format!("{eng}:second-compilation-panics"), desc());
                    }
                    if first_ok != second_ok {
                        return Verdict::fail(format!("{eng}:compilation-not-repeatable"), format!("first compilation {}, second {}\n{}", if first_ok { "Ok" } else { "Err" }, if second_ok { "Ok" } else { "Err" }, desc()));
                    }
                    if first_ok && r.engine == Engine::Jit && hash2 != r.code_hash {
                        return Verdict::fail("jit:code-differs-between-compilations", format!("{} bytes of code, hashes {:#x} vs {:#x}\n{}", r.code_len, r.code_hash, hash2, desc()));
                    }
                }
            }
            Outcome::Hang { phase } => return Verdict::Inconclusive(format!("{eng} hit the watchdog during {phase:?}")),
            other => return Verdict::fail(format!("{eng}:{}", outcome_sig(other)), format!("{eng}: {}\n{}", other.short(), desc())),
        }
    }
    Verdict::Pass
}

fn run12(ctx: &Ctx) {
    let runner = RefCell::new(Runner::new());
    ctx.shrink_iters.set(3000);
    let both = [Engine::Jit, Engine::Cranelift];
    let jit = [Engine::Jit];
    let cases = ctx.share(ctx.tier.pick(48_000, 1_600_000));
    ctx.search("soup-jit", "jit", cases, (soup::soup(24), env()), |(s, e), want_case| {
        let prog = soup::lower(s);
        if refver::violations(&prog).len() > 1 {
            return (Verdict::Pass, Value::Null);
        }
        let mut case = make_case(prog, e);
        let mut st = ctx.stats();
        let frozen = st.is_frozen() || want_case;
        let v = check12(&mut runner.borrow_mut(), &mut case, &jit, if frozen { None } else { Some(&mut st) }, "soup");
        (v, if want_case { case.to_json() } else { Value::Null })
    });
    let cases = ctx.share(ctx.tier.pick(6_400, 200_000));
    ctx.search("soup-both", "both", cases, (soup::soup(24), env()), |(s, e), want_case| {
        let prog = soup::lower(s);
        if refver::violations(&prog).len() > 1 {
            return (Verdict::Pass, Value::Null);
        }
        let mut case = make_case(prog, e);
        let mut st = ctx.stats();
        let frozen = st.is_frozen() || want_case;
        let v = check12(&mut runner.borrow_mut(), &mut case, &both, if frozen { None } else { Some(&mut st) }, "soup");
        (v, if want_case { case.to_json() } else { Value::Null })
    });
    let cases = ctx.share(ctx.tier.pick(4_800, 160_000));
    ctx.shrink_iters.set(1000);
    ctx.search("struct-both", "both", cases, (mutant(), env()), |(m, e), want_case| {
        let base = gen::lower(&m.p);
        let mut prog = base.prog.clone();
        soup::apply_all(&m.muts, &mut prog);
        let mut case = make_case(prog, e);
        case.vm = base.vm;
        if e.register_called % 2 == 0 {
            case.helpers = base.helpers.clone();
        }
        let mut st = ctx.stats();
        let frozen = st.is_frozen() || want_case;
        let v = check12(&mut runner.borrow_mut(), &mut case, &both, if frozen { None } else { Some(&mut st) }, "struct");
        (v, if want_case { case.to_json() } else { Value::Null })
    });
    // dense programs: worst-case code expansion at every length (the compilers' size estimation)
    let cases = ctx.share(ctx.tier.pick(9_600, 240_000));
    ctx.shrink_iters.set(400);
    ctx.search("dense-jit", "jit", cases, gen::dense(400, true), |c, want_case| {
        let mut case = c.clone();
        let mut st = ctx.stats();
        let frozen = st.is_frozen() || want_case;
        let v = check12(&mut runner.borrow_mut(), &mut case, &jit, if frozen { None } else { Some(&mut st) }, "dense");
        (v, if want_case { case.to_json() } else { Value::Null })
    });
    let cases = ctx.share(ctx.tier.pick(640, 16_000));
    ctx.search("dense-both", "both", cases, gen::dense(300, true), |c, want_case| {
        let mut case = c.clone();
        let mut st = ctx.stats();
        let frozen = st.is_frozen() || want_case;
        let v = check12(&mut runner.borrow_mut(), &mut case, &both, if frozen { None } else { Some(&mut st) }, "dense");
        (v, if want_case { case.to_json() } else { Value::Null })
    });
    // page edges: the JIT sizes its buffer in whole pages; for every instruction form measure the
    // code it expands to (hook H2) and compile programs whose code ends just below, at and just
    // above each page multiple - homogeneous, and random mixtures of the densest forms
    if page_edges(ctx, &runner) {
        return;
    }
    // long programs: JIT only (Cranelift is capped by compile time)
    let cases = ctx.share(ctx.tier.pick(96, 2400));
    ctx.shrink_iters.set(100);
    ctx.search("long-jit", "jit", cases, gen::program(true, true), |p, want_case| {
        let mut case = gen::lower(p);
        let mut st = ctx.stats();
        let frozen = st.is_frozen() || want_case;
        let v = check12(&mut runner.borrow_mut(), &mut case, &jit, if frozen { None } else { Some(&mut st) }, "long");
        (v, if want_case { case.to_json() } else { Value::Null })
    });
    // long programs through Cranelift as well (thorough only: a 33k-instruction program takes
    // seconds to compile)
    if ctx.tier == Tier::Thorough {
        let cases = ctx.share(160);
        ctx.shrink_iters.set(20);
        ctx.search("long-both", "both", cases, gen::program(false, true), |p, want_case| {
            let mut case = gen::lower(p);
            if case.prog.len() / 8 > 70_000 {
                return (Verdict::Pass, Value::Null);
            }
            let mut st = ctx.stats();
            let frozen = st.is_frozen() || want_case;
            let v = check12(&mut runner.borrow_mut(), &mut case, &both, if frozen { None } else { Some(&mut st) }, "long-cranelift");
            (v, if want_case { case.to_json() } else { Value::Null })
        });
    }
    // the size limit itself (one worker): 1,000,000 instructions with jumps at both ends
    if ctx.worker == 0 {
        for (name, n) in [("million", 1_000_000usize), ("million-minus-one", 999_999)] {
            if ctx.tier == Tier::Quick && name != "million" {
                continue;
            }
            let mut case = million_case(n);
            let mut st = ctx.stats();
            let v = check12(&mut runner.borrow_mut(), &mut case, &jit, Some(&mut st), name);
            drop(st);
            if ctx.enumerate_case(v, "million", || json!({"n": n})) {
                return;
            }
        }
    }
}

/// All single-instruction forms the verifier accepts in a straight-line program: every supported
/// opcode x operand variants that change the machine encoding (register pairs from both halves of
/// the host register file, short / long displacements and immediates).
fn insn_forms() -> Vec<Vec<Insn>> {
    let mut forms = Vec::new();
    let regs: [(u8, u8); 14] = [(0, 1), (1, 0), (2, 6), (3, 3), (4, 5), (5, 9), (6, 2), (7, 8), (8, 7), (9, 4), (1, 10), (7, 10), (0, 7), (9, 0)];
    for opc in supported_opcodes() {
        let k = kind_of(opc).unwrap();
        let hi = opc >> 4;
        let imms: Vec<i32> = match k {
            Kind::AluImm if matches!(hi, ALU_LSH | ALU_RSH | ALU_ARSH) => vec![1, 31],
            Kind::AluImm => vec![1, 0x1234_5678, -1],
            Kind::Endian => vec![16, 32, 64],
            Kind::JmpImm | Kind::St => vec![0, 0x1234_5678, -1],
            Kind::LdAbs | Kind::LdInd => vec![0, 0x400],
            Kind::Call => vec![1],
            _ => vec![0],
        };
        let offs: Vec<i16> = match k {
            Kind::Ldx | Kind::St | Kind::Stx | Kind::Xadd => vec![0, -8, -512],
            _ => vec![0],
        };
        let u = uses_of(k);
        for &(d, s) in &regs {
            if !u.dst && !u.src && d != 0 {
                continue;
            }
            // r10 is read-only: it may only be a source (or the base of a store)
            let (d, s) = if matches!(k, Kind::St | Kind::Stx | Kind::Xadd) { (s, d) } else { (d, s) };
            if d == 10 && !matches!(k, Kind::St | Kind::Stx | Kind::Xadd) {
                continue;
            }
            if k == Kind::Call && s != 0 {
                continue;
            }
            for &imm in &imms {
                for &off in &offs {
                    let i = Insn::new(opc, if u.dst { d } else { 0 }, if u.src { s } else { 0 }, off, imm);
                    let f = if k == Kind::Lddw { vec![Insn::new(opc, d, 0, 0, imm), Insn::new(0, 0, 0, 0, -1)] } else if k == Kind::Exit { continue } else { vec![i] };
                    if !forms.contains(&f) {
                        forms.push(f);
                    }
                }
            }
        }
    }
    forms
}

fn edge_case(units: &[&Vec<Insn>]) -> ExecCase {
    edge_case_kind(0, units)
}

/// The JIT's prologue differs between the VM kinds (no metadata / metadata / metadata with the
/// packet pointers stored by the prologue), so code sizes around a page multiple are built for
/// each of them.
const EDGE_KINDS: [VmKind; 4] = [VmKind::NoData, VmKind::Raw, VmKind::Mbuff { data_off: 0, end_off: 8 }, VmKind::Fixed { data_off: 0x40, end_off: 0x50 }];

fn edge_case_kind(kind: usize, units: &[&Vec<Insn>]) -> ExecCase {
    let mut insns: Vec<Insn> = units.iter().flat_map(|f| f.iter().copied()).collect();
    insns.push(Insn::new(EXIT, 0, 0, 0, 0));
    let mut c = ExecCase::new(EDGE_KINDS[kind % 4], encode_prog(&insns));
    if kind % 4 != 0 {
        c.pkt = vec![0x5a; 16];
        c.mbuff = vec![0; 32];
    }
    c.helpers = vec![(1, 0)];
    c
}

/// Returns true when a violation was recorded.
fn page_edges(ctx: &Ctx, runner: &RefCell<Runner>) -> bool {
    const PAGE: i64 = 4096;
    let jit = [Engine::Jit];
    let forms = insn_forms();
    let pages: i64 = ctx.tier.pick(2, 6) as i64;
    // (form index, bytes per unit, bytes of everything else)
    let mut sized: Vec<(usize, i64, i64)> = Vec::new();
    for (fi, f) in forms.iter().enumerate() {
        if fi % ctx.nworkers != ctx.worker {
            continue;
        }
        let mut len = [0i64; 2];
        for (slot, n) in [(0usize, 2usize), (1, 3)] {
            let mut case = edge_case(&vec![f; n]);
            case.compile_only = true;
            let r = runner.borrow_mut().run(&case, &jit);
            len[slot] = match r[0].outcome {
                Outcome::CompiledOnly => r[0].code_len as i64,
                _ => -1,
            };
        }
        let unit = len[1] - len[0];
        if len[0] <= 0 || unit <= 0 {
            // not compilable on its own (or the hook is off): the other streams cover it
            ctx.stats().class(&format!("page-edge:form-not-measured:{:#04x}", f[0].opc));
            continue;
        }
        sized.push((fi, unit, len[0] - 2 * unit));
        for kind in 0..4usize {
            // bytes of everything but the units, for this VM kind
            let rest = if kind == 0 {
                len[0] - 2 * unit
            } else {
                let mut case = edge_case_kind(kind, &vec![f; 2]);
                case.compile_only = true;
                let r = runner.borrow_mut().run(&case, &jit);
                match r[0].outcome {
                    Outcome::CompiledOnly => r[0].code_len as i64 - 2 * unit,
                    _ => continue,
                }
            };
            for k in 1..=pages {
                // sizes from just below the page multiple to a few units above it
                let cross = (k * PAGE - rest).div_euclid(unit);
                for n in [cross - 1, cross, cross + 1, cross + 2] {
                    if n < 1 {
                        continue;
                    }
                    let mut case = edge_case_kind(kind, &vec![f; n as usize]);
                    let mut st = ctx.stats();
                    let v = check12(&mut runner.borrow_mut(), &mut case, &jit, Some(&mut st), "page-edge");
                    st.class(&format!("page-edge:{}-page", k));
                    st.class(&format!("page-edge:vm:{}", EDGE_KINDS[kind].name()));
                    drop(st);
                    if ctx.enumerate_case(v, "jit", || case.to_json()) {
                        return true;
                    }
                }
            }
        }
    }
    // mixtures of the densest forms of this worker's share
    sized.sort_by_key(|&(fi, unit, _)| (std::cmp::Reverse(unit * 8 / forms[fi].len() as i64), fi));
    sized.truncate(24);
    if sized.is_empty() {
        return false;
    }
    // bytes of an otherwise empty program, per VM kind
    let mut bases = [0i64; 4];
    for (kind, b) in bases.iter_mut().enumerate() {
        let mut case = edge_case_kind(kind, &[]);
        case.compile_only = true;
        let r = runner.borrow_mut().run(&case, &jit);
        *b = match r[0].outcome {
            Outcome::CompiledOnly => r[0].code_len as i64,
            _ => sized.iter().map(|s| s.2).max().unwrap_or(64),
        };
    }
    let cases = ctx.share(ctx.tier.pick(6_400, 160_000));
    let strat = (1..=pages, -40i64..=60, prop::collection::vec(any::<u16>(), 1200), 0usize..4);
    ctx.search("page-edge-mix", "jit", cases, strat, |(k, delta, picks, kind), want_case| {
        let kind = *kind;
        let target = k * PAGE + delta - bases[kind];
        let mut total = 0i64;
        let mut units = Vec::new();
        for p in picks {
            if total >= target {
                break;
            }
            let (fi, unit, _) = sized[(*p as usize * sized.len()) >> 16];
            units.push(&forms[fi]);
            total += unit;
        }
        let mut case = edge_case_kind(kind, &units);
        let mut st = ctx.stats();
        let frozen = st.is_frozen() || want_case;
        if !frozen {
            st.class(&format!("page-edge-mix:vm:{}", EDGE_KINDS[kind].name()));
        }
        let v = check12(&mut runner.borrow_mut(), &mut case, &jit, if frozen { None } else { Some(&mut st) }, "page-edge-mix");
        (v, if want_case { case.to_json() } else { Value::Null })
    });
    false
}

fn million_case(n: usize) -> ExecCase {
    let mut insns = Vec::with_capacity(n);
    insns.push(Insn::new(alu_opc(true, ALU_MOV, false), 0, 0, 0, 1));
    insns.push(Insn::new(jmp_opc(true, J_EQ, false), 0, 0, 32767, 5));
    while insns.len() < n - 3 {
        let k = insns.len();
        insns.push(match k % 5 {
            0 => Insn::new(alu_opc(true, ALU_ADD, false), (k % 10) as u8, 0, 0, k as i32),
            1 => Insn::new(alu_opc(false, ALU_MOD, true), (k % 10) as u8, ((k / 7) % 10) as u8, 0, 0),
            2 => Insn::new(jmp_opc(false, J_SGT, true), (k % 10) as u8, 3, 2, 0),
            3 => Insn::new(alu_opc(true, ALU_DIV, true), (k % 10) as u8, ((k / 3) % 10) as u8, 0, 0),
            _ => Insn::new(JA, 0, 0, 0, 0),
        });
    }
    insns.push(Insn::new(jmp_opc(true, J_NE, false), 0, 0, -32768, 5));
    insns.push(Insn::new(alu_opc(true, ALU_MOV, false), 0, 0, 0, 2));
    insns.push(Insn::new(EXIT, 0, 0, 0, 0));
    ExecCase::new(VmKind::NoData, encode_prog(&insns))
}

fn replay12(_ctx: &Ctx, kind: &str, case: &Value) -> Verdict {
    if kind == "million" {
        let mut c = million_case(case["n"].as_u64().unwrap_or(1_000_000) as usize);
        return check12(&mut Runner::new(), &mut c, &[Engine::Jit], None, "replay");
    }
    let mut c = ExecCase::from_json(case);
    let engines: &[Engine] = if kind == "jit" { &[Engine::Jit] } else { &[Engine::Jit, Engine::Cranelift] };
    check12(&mut Runner::new(), &mut c, engines, None, "replay")
}
