//! C01 - interpreter computes the ISA semantics (vs the reference model)
//! C03 - x86-64 JIT == interpreter;  C04 - Cranelift == interpreter, local calls refused.

use super::PropDef;
use crate::engine::*;
use crate::execcheck::*;
use crate::gen;
use crate::isa;
use crate::model::{MOut, Quirks, Trace};
use crate::runner::*;
use serde_json::{json, Value};
use std::cell::RefCell;

pub fn def01() -> PropDef {
    PropDef {
        info: PropInfo {
            id: "C01",
            rule: "structured programs (tree -> bytes; every ALU/JMP/JMP32/LD/LDX/ST/STX opcode x registers r0-r9 x boundary-heavy immediates; nested if/else, dead code, counted loops with back edges, helper calls, local calls, pointer spills, packet / metadata / stack accesses at boundary positions, junk in unused fields; optional 32k/65k-instruction padding) on all four VM kinds with random packet and metadata contents; the interpreter's return value / error class and every byte of packet and metadata buffer are compared with an independent reference interpreter that tracks definedness (undefined runs are discarded and counted).  Plus the instruction matrix (harness/vrun/src/props/matrix.rs): a deterministic enumeration of ~108,000 single-instruction tests - every ALU / JMP / JMP32 opcode x all 100 (dst, src) pairs of r0-r9 x boundary operand pairs (all 400 pairs of a 20-value pool on three register pairs), immediate forms x every destination x 14 immediates, neg / byte swaps / lddw, loads, stores and atomic adds of every width through every base register (r10 included) at 8 displacements - 32 tests per program, each result stored to its own packet slot; a failing program is re-run test by test. Non-trivial = model-defined run that executes at least one conditional jump, helper call or local call in addition to the fixed prologue/epilogue (which alone is ~70 instructions with 9+ memory accesses); distinct by hash of program+input.",
            assumptions: &["reference interpreter harness/vrun/src/model.rs states the ISA semantics of C01 correctly (MOD32 by zero leaves all 64 bits, DESIGN 6.1)", "the interpreter's 512-byte stack is 8-byte aligned", "executions run in a forked child with an instruction budget of 100 x model steps + 10000"],
        },
        run: run01,
        replay: replay01,
        single_worker: false,
    }
}

pub fn def03() -> PropDef {
    PropDef {
        info: PropInfo {
            id: "C03",
            rule: "same program generator as C01 (independent seed stream), premise filtered by the reference model (terminates, no dependence on undefined state, all accesses in bounds); in a forked child the interpreter and the x86-64 JIT each run from freshly initialised buffers at identical addresses; return value and every byte of packet and metadata buffer must be equal; JIT compile errors/panics, traps and crashes on such programs are violations.  Plus the instruction matrix (harness/vrun/src/props/matrix.rs): a deterministic enumeration of ~108,000 single-instruction tests - every ALU / JMP / JMP32 opcode x all 100 (dst, src) pairs of r0-r9 x boundary operand pairs (all 400 pairs of a 20-value pool on three register pairs), immediate forms x every destination x 14 immediates, neg / byte swaps / lddw, loads, stores and atomic adds of every width through every base register (r10 included) at 8 displacements - 32 tests per program, each result stored to its own packet slot; a failing program is re-run test by test. Non-trivial = premise holds, >= 1 executed conditional jump, helper call or local call beyond the fixed prologue/epilogue, >= 3 distinct registers of which one in r4-r9; distinct by hash of program+input.",
            assumptions: &["premise classification by the reference model", "a JIT run that hits the 180 s watchdog is reported as inconclusive (exit 2), not as a violation"],
        },
        run: run03,
        replay: replay03,
        single_worker: false,
    }
}

pub fn def04() -> PropDef {
    PropDef {
        info: PropInfo {
            id: "C04",
            rule: "equivalence part: C01 generator without local calls, premise filtered by the model, interpreter vs Cranelift-compiled code in a forked child (same addresses), return value and all packet/metadata bytes compared; refusal part: programs containing an eBPF-to-eBPF call, with helper sets that do / do not contain an id equal to a call displacement, must make cranelift_compile return Err (never Ok, never a panic).  Plus the instruction matrix (harness/vrun/src/props/matrix.rs): a deterministic enumeration of ~108,000 single-instruction tests - every ALU / JMP / JMP32 opcode x all 100 (dst, src) pairs of r0-r9 x boundary operand pairs (all 400 pairs of a 20-value pool on three register pairs), immediate forms x every destination x 14 immediates, neg / byte swaps / lddw, loads, stores and atomic adds of every width through every base register (r10 included) at 8 displacements - 32 tests per program, each result stored to its own packet slot; a failing program is re-run test by test. Non-trivial = (equivalence) premise holds, >= 8 executed instructions, >= 1 executed conditional jump (>= 2 basic blocks); (refusal) program with a local call; distinct by hash.",
            assumptions: &["premise classification by the reference model", "Cranelift traps (SIGILL) and crashes on premise-satisfying programs are violations; watchdog hits are inconclusive"],
        },
        run: run04,
        replay: replay04,
        single_worker: false,
    }
}

fn classes(st: &mut Stats, case: &ExecCase, t: &Trace) {
    st.or_bits("opcodes_executed", &t.opcodes);
    st.class(&format!("vm:{}", case.vm.name()));
    if let VmKind::Fixed { data_off, end_off } = case.vm {
        if (data_off as i64 - end_off as i64).abs() < 8 {
            st.class("fixed-vm:overlapping-pointer-slots");
        }
    }
    if t.back_edges > 0 {
        st.class("back-edge");
    }
    if t.cond_jumps > 0 {
        st.class("cond-jump");
    }
    if t.local_calls > 0 {
        st.class("local-call");
    }
    if t.helper_calls > 0 {
        st.class("helper-call");
    }
    if t.far_jump {
        st.class("jump-far-or-pc>32767");
    }
    if t.max_pc > 65535 {
        st.class("pc>65535");
    }
    if t.div_by_zero > 0 {
        st.class("div-or-mod-by-zero");
    }
    if t.big_shift > 0 {
        st.class("shift>=width");
    }
    if t.neg_imm_unsigned_cmp > 0 {
        st.class("unsigned-cmp-negative-imm");
    }
    if t.xadds > 0 {
        st.class("xadd");
    }
    if t.neg_ld_imm > 0 {
        st.class("ldabs/ldind-negative-imm");
    }
    if t.mem_accesses > 0 {
        st.class("memory-access");
    }
    if t.mod32_zero_upper {
        st.class("mod32-by-zero-upper-half-set");
    }
}

fn sample_json(case: &ExecCase, m: &ModelRun) -> Value {
    json!({"vm": case.vm.to_json(), "pkt": isa::hex(&case.pkt), "model": format!("{:?}", m.out), "steps": m.trace.steps, "listing": isa::listing(&case.prog, 40)})
}

const MODEL_STEPS: u64 = 400_000;

pub fn check01(runner: &mut Runner, case: &mut ExecCase, st: Option<&mut Stats>) -> Verdict {
    let addr = runner.pkt_addr(case);
    // Overlapping pointer slots of the fixed-metadata VM: what the buffer then holds is the
    // interpreter's own choice, not ISA semantics. C03 / C04 compare the compilers with it; C01
    // does not judge it.
    if let VmKind::Fixed { data_off, end_off } = case.vm {
        if (data_off as i64 - end_off as i64).abs() < 8 {
            if let Some(st) = st {
                st.eval();
                *st.discarded.entry("fixed-vm:overlapping-pointer-slots".into()).or_insert(0) += 1;
                return Verdict::Pass;
            }
            return Verdict::Discard("fixed-vm-overlapping-slots");
        }
    }
    let m = model_run(case, addr, Quirks::default(), MODEL_STEPS);
    if let Some(st) = st {
        st.eval();
        match &m.out {
            MOut::Undefined(w) => {
                *st.discarded.entry(format!("model:{w}")).or_insert(0) += 1;
                return Verdict::Pass;
            }
            MOut::StepLimit => {
                *st.discarded.entry("model:step-limit".into()).or_insert(0) += 1;
                return Verdict::Pass;
            }
            MOut::Err(k) => st.class(&format!("model-error:{k:?}")),
            MOut::Ret(_) => st.class("model-returns"),
        }
        classes(st, case, &m.trace);
        if m.trace.cond_jumps > 0 || m.trace.local_calls > 0 || m.trace.helper_calls > 0 {
            st.nontrivial(case.hash());
        }
        st.sample(3, || sample_json(case, &m));
    } else if matches!(m.out, MOut::Undefined(_) | MOut::StepLimit) {
        return Verdict::Discard("model-undefined");
    }
    // the model run that mimics the interpreter's known deviation (I2) - and, on the path taken
    // only because of it, the interpreter's reading of negative ldabs/ldind immediates
    let quirk = if m.trace.i2_trigger { Some(model_run(case, addr, Quirks { zx_jmp_imm: true, ld_neg_imm_zx: true }, MODEL_STEPS)) } else { None };
    if let Some(q) = &quirk {
        if matches!(q.out, MOut::Undefined(_) | MOut::StepLimit) {
            // because of I2 the interpreter follows a path whose result the model cannot
            // predict: nothing to compare (counted, not hidden)
            return Verdict::Discard("i2-divergence-into-undefined-path");
        }
    }
    // the path the interpreter takes because of I2 may be much longer than the one the ISA
    // prescribes: the budget must cover it, or the known deviation shows up as "runs away"
    let steps = m.trace.steps.max(quirk.as_ref().map(|q| q.trace.steps).unwrap_or(0));
    case.budget = 100 * steps + 10_000;
    let r = runner.run(case, &[Engine::Interp]);
    compare_interp_with_model(case, &m, quirk.as_ref(), &r[0])
}

fn run01(ctx: &Ctx) {
    let runner = RefCell::new(Runner::new());
    ctx.shrink_iters.set(3000);
    let cases = ctx.share(ctx.tier.pick(160_000, 3_200_000));
    ctx.search("struct", "exec", cases, gen::program(true, false), |p, want_case| {
        let mut case = gen::lower(p);
        let mut st = ctx.stats();
        let frozen = st.is_frozen() || want_case;
        let v = check01(&mut runner.borrow_mut(), &mut case, if frozen { None } else { Some(&mut st) });
        (v, if want_case { case.to_json() } else { Value::Null })
    });
    let cases = ctx.share(ctx.tier.pick(320, 6400));
    ctx.shrink_iters.set(300);
    ctx.search("long", "exec", cases, gen::program(true, true), |p, want_case| {
        let mut case = gen::lower(p);
        let mut st = ctx.stats();
        let frozen = st.is_frozen() || want_case;
        if !frozen {
            st.class("long-program-stream");
        }
        let v = check01(&mut runner.borrow_mut(), &mut case, if frozen { None } else { Some(&mut st) });
        (v, if want_case { case.to_json() } else { Value::Null })
    });
    // call graphs: nesting up to the limit, stack traffic in every frame, with and without a
    // stack-usage calculator (the generator of C07)
    let cases = ctx.share(ctx.tier.pick(48_000, 960_000));
    ctx.shrink_iters.set(2000);
    ctx.search("callgraph", "exec", cases, super::c07::cprog(), |p, want_case| {
        let mut case = super::c07::lower(p);
        // see C07: on the fixed-metadata VM a stack overrun may land in the VM's own buffer
        if matches!(case.vm, VmKind::Fixed { .. }) {
            case.vm = VmKind::Raw;
        }
        let mut st = ctx.stats();
        let frozen = st.is_frozen() || want_case;
        if !frozen {
            st.class("call-graph-stream");
        }
        let v = check01(&mut runner.borrow_mut(), &mut case, if frozen { None } else { Some(&mut st) });
        (v, if want_case { case.to_json() } else { Value::Null })
    });
    // loops whose head is instruction 0
    let cases = ctx.share(ctx.tier.pick(6_400, 128_000));
    ctx.shrink_iters.set(500);
    ctx.search("loop0", "exec", cases, gen::loop_to_zero(), |c, want_case| {
        let mut case = c.clone();
        let mut st = ctx.stats();
        let frozen = st.is_frozen() || want_case;
        if !frozen {
            st.class("loop-head-at-instruction-0");
        }
        let v = check01(&mut runner.borrow_mut(), &mut case, if frozen { None } else { Some(&mut st) });
        (v, if want_case { case.to_json() } else { Value::Null })
    });
    // accesses far into a packet of 32-160 KiB
    super::bigpkt::run(ctx, Engine::Interp, 4_800, 96_000);
    // every opcode x every register pair x boundary operands, one instruction per test
    if super::matrix::run(ctx, &runner, ctx.tier.pick(4, 16) as usize, 1, &|r, c| check01(r, c, None)) {
        return;
    }
    super::matrix::run_pairs(ctx, &runner, ctx.tier.pick(2, 12) as usize, true, &|r, c| check01(r, c, None));
}

fn replay01(_ctx: &Ctx, kind: &str, case: &Value) -> Verdict {
    if kind == "bigpkt" {
        return super::bigpkt::replay(case, Engine::Interp);
    }
    let mut c = ExecCase::from_json(case);
    check01(&mut Runner::new(), &mut c, None)
}

// ---- C03 / C04 -------------------------------------------------------------------------------

pub fn check_diff(runner: &mut Runner, case: &mut ExecCase, engine: Engine, st: Option<&mut Stats>) -> Verdict {
    let addr = runner.pkt_addr(case);
    // premise = what the interpreter does: it reads a negative ldabs/ldind immediate zero-extended
    let m = model_run(case, addr, Quirks { ld_neg_imm_zx: true, ..Quirks::default() }, MODEL_STEPS);
    let premise = matches!(m.out, MOut::Ret(_));
    if let Some(st) = st {
        st.eval();
        if !premise {
            let why = match &m.out {
                MOut::Undefined(w) => format!("model:{w}"),
                MOut::StepLimit => "model:step-limit".into(),
                MOut::Err(k) => format!("model:error-{k:?}"),
                MOut::Ret(_) => unreachable!(),
            };
            *st.discarded.entry(why).or_insert(0) += 1;
            return Verdict::Pass;
        }
        classes(st, case, &m.trace);
        let regs = m.trace.regs_used;
        let basic = m.trace.cond_jumps > 0 || m.trace.local_calls > 0 || m.trace.helper_calls > 0;
        let nontrivial = match engine {
            Engine::Jit => basic && regs.count_ones() >= 3 && regs & 0x03f0 != 0,
            _ => m.trace.steps >= 8 && m.trace.cond_jumps > 0,
        };
        if nontrivial {
            st.nontrivial(case.hash());
        }
        st.sample(3, || sample_json(case, &m));
    } else if !premise {
        return Verdict::Discard("premise-does-not-hold");
    }
    case.budget = 100 * m.trace.steps + 10_000;
    let r = runner.run(case, &[Engine::Interp, engine]);
    if let Outcome::CompileErr(_) = &r[1].outcome {
        // both compilers are documented to refuse, at compile time, a program that calls an
        // unregistered helper anywhere (C08) - even if the interpreter never reaches the call
        let registered: std::collections::HashSet<u32> = case.helpers.iter().map(|h| h.0).collect();
        if isa::decode_prog(&case.prog).iter().any(|x| x.opc == isa::CALL && x.src == 0 && !registered.contains(&(x.imm as u32))) {
            return Verdict::Discard("calls-unregistered-helper");
        }
    }
    compare_compiled_with_interp(case, &m, &r[0], &r[1])
}

fn run_diff(ctx: &Ctx, engine: Engine, local_calls: bool, quick: u64, thorough: u64, long_quick: u64, long_thorough: u64) {
    let runner = RefCell::new(Runner::new());
    ctx.shrink_iters.set(2000);
    let cases = ctx.share(ctx.tier.pick(quick, thorough));
    ctx.search("struct", "exec", cases, gen::program(local_calls, false), |p, want_case| {
        let mut case = gen::lower(p);
        let mut st = ctx.stats();
        let frozen = st.is_frozen() || want_case;
        let v = check_diff(&mut runner.borrow_mut(), &mut case, engine, if frozen { None } else { Some(&mut st) });
        (v, if want_case { case.to_json() } else { Value::Null })
    });
    let cases = ctx.share(ctx.tier.pick(quick / 8, thorough / 8));
    ctx.shrink_iters.set(500);
    ctx.search("dense", "exec", cases, gen::dense_alu(300), |c, want_case| {
        let mut case = c.clone();
        let mut st = ctx.stats();
        let frozen = st.is_frozen() || want_case;
        if !frozen {
            st.class("dense-alu-stream");
        }
        let v = check_diff(&mut runner.borrow_mut(), &mut case, engine, if frozen { None } else { Some(&mut st) });
        (v, if want_case { case.to_json() } else { Value::Null })
    });
    let cases = ctx.share(ctx.tier.pick(long_quick, long_thorough));
    ctx.shrink_iters.set(200);
    ctx.search("long", "exec", cases, gen::program(local_calls, true), |p, want_case| {
        let mut case = gen::lower(p);
        let mut st = ctx.stats();
        let frozen = st.is_frozen() || want_case;
        if !frozen {
            st.class("long-program-stream");
        }
        let v = check_diff(&mut runner.borrow_mut(), &mut case, engine, if frozen { None } else { Some(&mut st) });
        (v, if want_case { case.to_json() } else { Value::Null })
    });
    let cases = ctx.share(ctx.tier.pick(if engine == Engine::Jit { 6_400 } else { 3_200 }, 64_000));
    ctx.shrink_iters.set(500);
    ctx.search("loop0", "exec", cases, gen::loop_to_zero(), |c, want_case| {
        let mut case = c.clone();
        let mut st = ctx.stats();
        let frozen = st.is_frozen() || want_case;
        if !frozen {
            st.class("loop-head-at-instruction-0");
        }
        let v = check_diff(&mut runner.borrow_mut(), &mut case, engine, if frozen { None } else { Some(&mut st) });
        (v, if want_case { case.to_json() } else { Value::Null })
    });
    super::bigpkt::run(ctx, engine, if engine == Engine::Jit { 4_800 } else { 3_200 }, 64_000);
    if super::matrix::run(ctx, &runner, ctx.tier.pick(4, 16) as usize, 1, &|r, c| check_diff(r, c, engine, None)) {
        return;
    }
    super::matrix::run_pairs(ctx, &runner, ctx.tier.pick(2, 12) as usize, local_calls, &|r, c| check_diff(r, c, engine, None));
}

fn run03(ctx: &Ctx) {
    run_diff(ctx, Engine::Jit, true, 96_000, 2_000_000, 320, 6400);
}

fn replay03(_ctx: &Ctx, kind: &str, case: &Value) -> Verdict {
    if kind == "bigpkt" {
        return super::bigpkt::replay(case, Engine::Jit);
    }
    let mut c = ExecCase::from_json(case);
    check_diff(&mut Runner::new(), &mut c, Engine::Jit, None)
}

/// Refusal part of C04: a program with a local call must not compile.
pub fn check_refusal(runner: &mut Runner, case: &mut ExecCase) -> Verdict {
    let has_local = isa::decode_prog(&case.prog).iter().any(|x| x.opc == isa::CALL && x.src == 1);
    if !has_local {
        return Verdict::Discard("no-local-call");
    }
    case.compile_only = true;
    let r = runner.run(case, &[Engine::Cranelift]);
    match &r[0].outcome {
        Outcome::CompileErr(_) => Verdict::Pass,
        Outcome::VerifierErr(_) => Verdict::Discard("not-accepted"),
        Outcome::CompiledOnly | Outcome::Ok(_) => Verdict::fail(
            "cranelift:compiles-local-call",
            format!("cranelift_compile returned Ok for a program with an eBPF-to-eBPF call (helpers {:?})\n{}", case.helpers, isa::listing(&case.prog, 60).join("\n")),
        ),
        Outcome::Hang { .. } => Verdict::Inconclusive("cranelift_compile hit the watchdog".into()),
        other => Verdict::fail(format!("cranelift:{}", outcome_sig(other)), format!("cranelift_compile: {} on a program with a local call\n{}", other.short(), isa::listing(&case.prog, 60).join("\n"))),
    }
}

fn run04(ctx: &Ctx) {
    run_diff(ctx, Engine::Cranelift, false, 24_000, 640_000, 48, 960);
    let runner = RefCell::new(Runner::new());
    ctx.shrink_iters.set(1000);
    let cases = ctx.share(ctx.tier.pick(6400, 128_000));
    ctx.search("refusal", "refusal", cases, (gen::program(true, false), any_bool_u8()), |(p, with_id), want_case| {
        let mut case = gen::lower(p);
        // optionally register a helper whose id equals the displacement of a local call
        if with_id.0 {
            if let Some(x) = isa::decode_prog(&case.prog).iter().find(|x| x.opc == isa::CALL && x.src == 1) {
                let id = x.imm as u32;
                case.helpers.retain(|h| h.0 != id);
                case.helpers.push((id, with_id.1 % 8));
            }
        }
        let v = check_refusal(&mut runner.borrow_mut(), &mut case);
        if !want_case {
            let mut st = ctx.stats();
            st.eval();
            if !matches!(v, Verdict::Discard(_)) {
                st.class(if with_id.0 { "refusal:helper-id==displacement" } else { "refusal:plain" });
                st.nontrivial(case.hash() ^ with_id.0 as u64);
            }
        }
        (v, if want_case { case.to_json() } else { Value::Null })
    });
}

fn any_bool_u8() -> impl proptest::strategy::Strategy<Value = (bool, u8)> {
    use proptest::prelude::*;
    (any::<bool>(), any::<u8>())
}

fn replay04(_ctx: &Ctx, kind: &str, case: &Value) -> Verdict {
    let mut c = ExecCase::from_json(case);
    if kind == "bigpkt" {
        super::bigpkt::replay(case, Engine::Cranelift)
    } else if kind == "refusal" {
        check_refusal(&mut Runner::new(), &mut c)
    } else {
        check_diff(&mut Runner::new(), &mut c, Engine::Cranelift, None)
    }
}
