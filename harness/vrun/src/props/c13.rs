//! C13 - the assembler emits exactly the encoding each mnemonic and operand list denotes.

use super::{catch, panic_signature, PropDef};
use crate::asmref::{self, Line, Opnd};
use crate::engine::*;
use crate::isa;
use proptest::prelude::*;
use serde_json::{json, Value};

pub fn def() -> PropDef {
    PropDef {
        info: PropInfo {
            id: "C13",
            rule: "texts of 1-8 lines; each line = a mnemonic from the documented table (every mnemonic incl. 32/64 and b/h/w/dw suffixes) with operands of the right shape (90%), any operand list incl. too many (5%) or a bogus mnemonic (5%); registers 0-15, 16+ and numbers around 2^32, 2^63 and 2^64, offsets in/around [-32768,32767], immediates in/around [-2^31,2^31-1], all 64-bit values for lddw; numbers spelled decimal or hex, optional '+', upper/lower case, leading zeros; varied blanks, tabs, CRLF, line breaks after the mnemonic and after commas, several instructions per line, leading whitespace; long sources of 200-4000 instructions (up to ~60 KiB) made by cycling over 1-8 generated lines; about one line in six repeats an earlier line (usually the one just before it). Oracle: table-driven reference assembler over the abstract syntax (independent encoder): Ok(bytes) must match exactly, Err must be Err. Non-trivial = text with >= 2 instructions or a negative / hex / boundary operand; distinct by hash of the text.",
            assumptions: &["reference assembler harness/vrun/src/asmref.rs states the documented syntax correctly", "hexadecimal literals >= 2^63 are only used for lddw (DESIGN 6.3)"],
        },
        run,
        replay,
        single_worker: false,
    }
}

pub fn check_text(text: &str, want: &Result<Vec<u8>, ()>) -> Verdict {
    let t = text.to_string();
    match catch(move || rbpf::assembler::assemble(&t)) {
        Err(m) => Verdict::fail(panic_signature(&m), format!("assemble panicked on {text:?}: {m}")),
        Ok(got) => match (got, want) {
            (Ok(g), Ok(w)) => {
                if &g == w {
                    Verdict::Pass
                } else {
                    Verdict::fail("wrong-encoding", format!("text {text:?}\n assembled {}\n expected  {}", isa::hex(&g), isa::hex(w)))
                }
            }
            (Err(_), Err(())) => Verdict::Pass,
            (Ok(g), Err(())) => Verdict::fail("accepts-invalid", format!("text {text:?} must be rejected but assembled to {}", isa::hex(&g))),
            (Err(e), Ok(w)) => Verdict::fail("rejects-valid", format!("text {text:?} denotes {} but was rejected: {e}", isa::hex(w))),
        },
    }
}

fn interesting(lines: &[Line]) -> bool {
    lines.len() >= 2
        || lines.iter().any(|l| {
            l.spell.num & 1 != 0
                || l.ops.iter().any(|o| match o {
                    Opnd::Int(v) => *v < 0 || v.unsigned_abs() >= 32767,
                    Opnd::Mem(_, o) => *o < 0,
                    Opnd::Hex64(_) => true,
                    _ => false,
                })
        })
}

fn run(ctx: &Ctx) {
    let map = asmref::mnemonic_map();
    ctx.shrink_iters.set(30_000);
    let cases = ctx.share(ctx.tier.pick(1_600_000, 32_000_000));
    ctx.search("texts", "text", cases, asmref::program(8), |lines, want_case| {
        let text = asmref::render(lines);
        let want = asmref::ref_assemble(&map, lines);
        let v = check_text(&text, &want);
        if !want_case {
            let mut st = ctx.stats();
            st.eval();
            st.class(if want.is_ok() { "expect:ok" } else { "expect:err" });
            for (k, l) in lines.iter().enumerate() {
                if k > 0 && lines[k - 1].mnemonic == l.mnemonic && lines[k - 1].ops == l.ops {
                    st.class(if l.mnemonic == "lddw" { "repeats-previous-line:lddw" } else { "repeats-previous-line" });
                }
                if let Some((shape, _)) = map.get(&l.mnemonic) {
                    st.class(&format!("shape:{}", format!("{shape:?}").split('(').next().unwrap()));
                    if k > 0 && lines[k - 1].ops.is_empty() {
                        st.class("after-zero-operand-insn");
                    }
                } else {
                    st.class("bogus-mnemonic");
                }
            }
            if interesting(lines) {
                st.nontrivial(fnv_str(&text));
            }
            st.sample(5, || json!({"text": text, "expected": match &want { Ok(b) => isa::hex(b), Err(()) => "Err".into() }}));
        }
        (v, if want_case { json!({"text": text, "expected": match &want { Ok(b) => Value::String(isa::hex(b)), Err(()) => Value::Null }}) } else { Value::Null })
    });
    // long sources: 200-4000 instructions (3-60 KiB of text) made by cycling over 1-8 generated lines
    ctx.shrink_iters.set(300);
    let cases = ctx.share(ctx.tier.pick(3_200, 96_000));
    ctx.search("long-texts", "long", cases, (asmref::program(8), prop_oneof![1 => 200usize..1000, 2 => 1000usize..4000]), |(lines, n), want_case| {
        let all: Vec<asmref::Line> = lines.iter().cycle().take(*n).cloned().collect();
        let text = asmref::render(&all);
        let want = asmref::ref_assemble(&map, &all);
        let v = match check_text(&text, &want) {
            Verdict::Fail { signature, detail } => {
                let cut = (0..=400).rev().find(|k| detail.is_char_boundary(*k)).unwrap_or(0);
                Verdict::Fail { signature: format!("long-text:{signature}"), detail: format!("{} instructions, {} bytes of text made by cycling over {:?}: {}...", n, text.len(), asmref::render(lines), &detail[..cut.min(detail.len())]) }
            }
            other => other,
        };
        if !want_case {
            let mut st = ctx.stats();
            st.eval();
            st.class(if want.is_ok() { "long-text:expect:ok" } else { "long-text:expect:err" });
            st.class(match text.len() { 0..=8191 => "long-text:<8KiB", 8192..=24575 => "long-text:8-24KiB", 24576..=49151 => "long-text:24-48KiB", _ => "long-text:>=48KiB" });
            st.nontrivial(fnv_str(&text));
        }
        (v, if want_case { json!({"cycle": asmref::render(lines), "lines": lines.len(), "n": n, "text": text, "expected": match &want { Ok(b) => Value::String(isa::hex(b)), Err(()) => Value::Null }}) } else { Value::Null })
    });
}

fn replay(_ctx: &Ctx, _kind: &str, case: &Value) -> Verdict {
    let text = case["text"].as_str().unwrap_or("");
    let want = match case["expected"].as_str() {
        Some(h) => Ok(isa::unhex(h)),
        None => Err(()),
    };
    check_text(text, &want)
}
