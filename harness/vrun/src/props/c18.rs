//! C18 - atomic add really is atomic under concurrent executions (stress exploration of real
//! schedules; the harness does not own the scheduler).

use super::{catch, PropDef};
use crate::engine::*;
use crate::gen::interesting_u64;
use crate::isa::*;
use crate::runner::{Arena, Engine, VmKind, PAGE};
use crate::vmx::AnyVm;
use proptest::prelude::*;
use serde_json::{json, Value};
use std::cell::RefCell;
use std::sync::{Arc, Barrier};

pub fn def() -> PropDef {
    PropDef {
        info: PropInfo {
            id: "C18",
            rule: "configuration = width (4 or 8) x 1-16 threads x per-thread engine (x86-64 JIT; interpreter and Cranelift with the word made accessible in one of four ways: a registered range over the page and no packet, a packet that ends exactly where the word starts plus a registered range over the word, a packet that contains the word, a packet that is the word) x per-thread addend (boundary-heavy) x per-thread base / source / counter registers (any three distinct of r0-r9) and displacement (0, short, long, extreme) x K in {1 .. 60,000} (quick) / {.. 400,000} (thorough) atomic adds per thread executed by an in-program counted loop x initial value x position of the word inside a canary-filled page; all threads start behind a barrier in a forked child. Invariant over the history: after join the word equals initial + sum(K_i * addend_i) mod 2^width and every other byte of the page is unchanged. Sub-cases: a single add changes exactly the 4/8 bytes; a misaligned atomic add under the interpreter is an Err that leaves memory unchanged. Schedules are whatever the 16 hardware threads produce (16 worker processes each running up to 16 threads: heavy oversubscription) - this is exploration of real schedules, not of all interleavings. Non-trivial = at least two threads with K >= 10,000 running on >= 2 distinct engines; distinct by hash of the configuration.",
            assumptions: &["lost updates are only observable if two executions actually overlap in time: K >= 10,000 per thread and a start barrier make overlap overwhelmingly likely but not certain", "property-based testing cannot enumerate interleavings; loom/shuttle-style schedule control is a different technique"],
        },
        run,
        replay,
        single_worker: false,
    }
}

#[derive(Clone, Debug)]
pub struct Thr {
    engine: u8,
    addend: u64,
    k: u32,
    /// selectors for the base, source and counter registers (three distinct registers of r0-r9)
    regs: (u8, u8, u8),
    /// displacement of the atomic add (the base register holds address - disp)
    disp: i16,
    /// how the word is made accessible to a checking engine: 0 = registered range over the page,
    /// no packet; 1 = packet that ends exactly where the word starts + registered range over the
    /// word; 2 = packet that contains the word; 3 = packet that is the word
    access: u8,
}

impl Thr {
    fn registers(&self) -> (u8, u8, u8) {
        let base = self.regs.0 % 10;
        let src = (base + 1 + self.regs.1 % 9) % 10;
        let rest: Vec<u8> = (0..10).filter(|r| *r != base && *r != src).collect();
        (base, src, rest[self.regs.2 as usize % rest.len()])
    }
}

#[derive(Clone, Debug)]
pub struct Cfg {
    wide: bool,
    threads: Vec<Thr>,
    initial: u64,
    pos: u16,
    /// byte misalignment for the (single-threaded) misaligned sub-case; 0 = aligned
    misalign: u8,
}

fn cfg(max_k: u32) -> impl Strategy<Value = Cfg> {
    let disp = prop_oneof![2 => Just(0i16), 1 => prop::sample::select(vec![8i16, -8, 120, 127, 128, -128, -129, 2040, -2048, 32767, -32768, 4, -4, 1, -1])];
    let thr = (0u8..3, interesting_u64(), prop_oneof![1 => 1u32..100, 3 => 10_000u32..max_k], (0u8..10, 0u8..9, 0u8..8), disp, 0u8..4)
        .prop_map(|(engine, addend, k, regs, disp, access)| Thr { engine, addend, k, regs, disp, access })
        .boxed();
    (any::<bool>(), prop_oneof![1 => prop::collection::vec(thr.clone(), 1..2), 6 => prop::collection::vec(thr, 2..17)], interesting_u64(), any::<u16>(), prop_oneof![5 => Just(0u8), 1 => 1u8..8])
        .prop_map(|(wide, threads, initial, pos, misalign)| Cfg { wide, threads, initial, pos, misalign })
}

#[repr(C)]
struct Shared18 {
    stage: u32,
    status: u32,
    msg_len: u32,
    msg: [u8; 500],
}

pub struct Mem18 {
    page: Arena,
    shared: *mut Shared18,
}

impl Mem18 {
    pub fn new() -> Mem18 {
        unsafe {
            let p = libc::mmap(std::ptr::null_mut(), PAGE, libc::PROT_READ | libc::PROT_WRITE, libc::MAP_ANONYMOUS | libc::MAP_SHARED, -1, 0);
            assert!(p != libc::MAP_FAILED);
            Mem18 { page: Arena::new(1, false), shared: p as *mut Shared18 }
        }
    }
}

fn program(addr: u64, t: &Thr, k: u32, wide: bool) -> Vec<u8> {
    let w = if wide { 8 } else { 4 };
    let (rb, rs, rc) = t.registers();
    let base = addr.wrapping_sub(t.disp as i64 as u64);
    let addend = t.addend;
    encode_prog(&[
        Insn::new(LDDW, rb, 0, 0, base as u32 as i32),
        Insn::new(0, 0, 0, 0, (base >> 32) as u32 as i32),
        Insn::new(LDDW, rs, 0, 0, addend as u32 as i32),
        Insn::new(0, 0, 0, 0, (addend >> 32) as u32 as i32),
        Insn::new(alu_opc(true, ALU_MOV, false), rc, 0, 0, k as i32),
        Insn::new(xadd_opc(w), rb, rs, t.disp, 0),
        Insn::new(alu_opc(true, ALU_ADD, false), rc, 0, 0, -1),
        Insn::new(jmp_opc(true, J_NE, false), rc, 0, -3, 0),
        Insn::new(alu_opc(true, ALU_MOV, false), 0, 0, 0, 0),
        Insn::new(EXIT, 0, 0, 0, 0),
    ])
}

const ENGINES: [Engine; 3] = [Engine::Interp, Engine::Jit, Engine::Cranelift];

fn fail(sh: &mut Shared18, m: String) {
    sh.status = 2;
    let n = m.len().min(sh.msg.len());
    sh.msg[..n].copy_from_slice(&m.as_bytes()[..n]);
    sh.msg_len = n as u32;
}

unsafe fn child(mem: &Mem18, c: &Cfg) {
    let sh = &mut *mem.shared;
    rbpf::verif_hooks::set_insn_budget(u64::MAX);
    let w: usize = if c.wide { 8 } else { 4 };
    let base = mem.page.data_start();
    for i in 0..PAGE {
        *base.add(i) = (i as u8).wrapping_mul(13) | 0x80;
    }
    // aligned slot inside the page, away from its ends
    let off = 64 + ((c.pos as usize * (PAGE - 192)) >> 16) / 8 * 8;
    let single_misaligned = c.misalign != 0;
    let addr = base.add(off + if single_misaligned { c.misalign as usize % w.max(1) } else { 0 }) as u64;
    let mask = if c.wide { u64::MAX } else { 0xffff_ffff };
    std::ptr::copy_nonoverlapping(c.initial.to_le_bytes().as_ptr(), addr as *mut u8, w);
    let before: Vec<u8> = std::slice::from_raw_parts(base, PAGE).to_vec();
    if single_misaligned && addr % w as u64 != 0 {
        // interpreter only: must be an error that leaves memory unchanged
        let prog: &'static [u8] = Box::leak(program(addr, &c.threads[0], 1, c.wide).into_boxed_slice());
        let mut vm = AnyVm::new(VmKind::Raw, Some(prog)).expect("probe program");
        vm.register_allowed_memory(base as u64..base as u64 + PAGE as u64);
        let r = catch(std::panic::AssertUnwindSafe(|| vm.exec(Engine::Interp, &mut [], &mut [])));
        let after = std::slice::from_raw_parts(base, PAGE);
        match r {
            Err(m) => return fail(sh, format!("SIG interp:panic-on-misaligned-xadd\n{m}")),
            Ok(Ok(v)) => return fail(sh, format!("SIG interp:misaligned-xadd-not-refused\nmisaligned atomic add at {addr:#x} (width {w}) returned Ok({v:#x})")),
            Ok(Err(_)) => {
                if after != &before[..] {
                    return fail(sh, "SIG interp:refused-xadd-changed-memory\na refused misaligned atomic add changed memory".into());
                }
            }
        }
        sh.status = 1;
        return;
    }
    let n = c.threads.len();
    let barrier = Arc::new(Barrier::new(n));
    let mut handles = Vec::new();
    for (ti, t) in c.threads.iter().enumerate() {
        let engine = ENGINES[t.engine as usize % 3];
        let prog: &'static [u8] = Box::leak(program(addr, t, t.k, c.wide).into_boxed_slice());
        let barrier = barrier.clone();
        let access = t.access % 4;
        let (range_lo, range_hi) = (base as u64, base as u64 + PAGE as u64);
        handles.push(std::thread::spawn(move || -> Result<u64, String> {
            let mut vm = AnyVm::new(VmKind::Raw, Some(prog)).map_err(|e| format!("thread {ti}: {e}"))?;
            let (pkt_lo, pkt_len): (u64, usize) = match (engine, access) {
                (Engine::Jit, _) | (Engine::Interp, 0) => (0, 0),
                (_, 1) if engine == Engine::Interp => (addr - 64, 64),
                (_, 2) => (addr - 16, 16 + w + 8),
                _ => (addr, w),
            };
            match engine {
                Engine::Interp if access == 0 => vm.register_allowed_memory(range_lo..range_hi),
                Engine::Interp if access == 1 => vm.register_allowed_memory(addr..addr + w as u64),
                Engine::Interp => {}
                Engine::Jit => vm.jit_compile().map_err(|e| format!("thread {ti} jit_compile: {e}"))?,
                Engine::Cranelift => vm.cranelift_compile().map_err(|e| format!("thread {ti} cranelift_compile: {e}"))?,
            }
            barrier.wait();
            let pkt: &'static mut [u8] = if pkt_len == 0 { &mut [] } else { std::slice::from_raw_parts_mut(pkt_lo as *mut u8, pkt_len) };
            vm.exec(engine, pkt, &mut []).map_err(|e| format!("thread {ti} ({}): {e}", engine.name()))
        }));
    }
    for h in handles {
        match h.join() {
            Ok(Ok(_)) => {}
            Ok(Err(e)) => return fail(sh, format!("SIG execution-error\n{e}")),
            Err(_) => return fail(sh, "SIG thread-panicked\na thread panicked".into()),
        }
    }
    let mut want = c.initial & mask;
    for t in &c.threads {
        want = want.wrapping_add((t.k as u64).wrapping_mul(t.addend & mask)) & mask;
    }
    let mut got = [0u8; 8];
    std::ptr::copy_nonoverlapping(addr as *const u8, got.as_mut_ptr(), w);
    let got = u64::from_le_bytes(got);
    if got != want {
        let lost = want.wrapping_sub(got) & mask;
        return fail(
            sh,
            format!(
                "SIG lost-update\nfinal value {got:#x}, expected initial + sum(K*addend) = {want:#x} (difference {lost:#x}); width {w}; threads (engine, addend, K): {:?}",
                c.threads.iter().map(|t| (ENGINES[t.engine as usize % 3].name(), t.addend & mask, t.k)).collect::<Vec<_>>()
            ),
        );
    }
    let after = std::slice::from_raw_parts(base, PAGE);
    let word = addr as usize - base as usize;
    for i in 0..PAGE {
        if (i < word || i >= word + w) && after[i] != before[i] {
            return fail(sh, format!("SIG neighbour-byte-changed\nbyte at offset {} from the word changed from {:#x} to {:#x} (width {w})", i as i64 - word as i64, before[i], after[i]));
        }
    }
    sh.status = 1;
}

pub fn check(mem: &Mem18, c: &Cfg) -> Verdict {
    unsafe {
        let sh = &mut *mem.shared;
        sh.stage = 0;
        sh.status = 0;
        sh.msg_len = 0;
        let pid = libc::fork();
        assert!(pid >= 0);
        if pid == 0 {
            libc::alarm(300);
            let r = std::panic::catch_unwind(std::panic::AssertUnwindSafe(|| child(mem, c)));
            libc::_exit(if r.is_ok() { 0 } else { 97 });
        }
        let mut status = 0i32;
        libc::waitpid(pid, &mut status, 0);
        let sh = &*mem.shared;
        if libc::WIFSIGNALED(status) {
            let sig = libc::WTERMSIG(status);
            if sig == libc::SIGALRM {
                return Verdict::Inconclusive("C18 child hit the 1180 s watchdog".into());
            }
            return Verdict::fail(format!("signal-{sig}"), format!("child died with signal {sig}; configuration {c:?}"));
        }
        match sh.status {
            1 => Verdict::Pass,
            2 => {
                let m = String::from_utf8_lossy(&sh.msg[..sh.msg_len as usize]).to_string();
                let (first, rest) = m.split_once('\n').unwrap_or((&m, ""));
                Verdict::fail(first.strip_prefix("SIG ").unwrap_or("c18-failed"), rest)
            }
            s => Verdict::fail("harness:child-failed", format!("status {s}, wait status {status}")),
        }
    }
}

fn to_json(c: &Cfg) -> Value {
    json!({"wide": c.wide, "initial": c.initial.to_string(), "pos": c.pos, "misalign": c.misalign,
           "threads": c.threads.iter().map(|t| json!([t.engine, t.addend.to_string(), t.k, [t.regs.0, t.regs.1, t.regs.2], t.disp, t.access])).collect::<Vec<_>>()})
}

fn from_json(v: &Value) -> Option<Cfg> {
    Some(Cfg {
        wide: v["wide"].as_bool()?,
        initial: v["initial"].as_str()?.parse().ok()?,
        pos: v["pos"].as_u64()? as u16,
        misalign: v["misalign"].as_u64()? as u8,
        threads: v["threads"].as_array()?.iter().map(|t| Thr { engine: t[0].as_u64().unwrap_or(0) as u8, addend: t[1].as_str().and_then(|s| s.parse().ok()).unwrap_or(1), k: t[2].as_u64().unwrap_or(1) as u32,
            // replay files written before registers / displacement were varied: r1, r2, r3, +0
            regs: (t[3][0].as_u64().unwrap_or(1) as u8, t[3][1].as_u64().unwrap_or(0) as u8, t[3][2].as_u64().unwrap_or(1) as u8),
            disp: t[4].as_i64().unwrap_or(0) as i16,
            access: t[5].as_u64().unwrap_or(0) as u8 }).collect(),
    })
}

fn run(ctx: &Ctx) {
    let mem = RefCell::new(Mem18::new());
    ctx.shrink_iters.set(60);
    let cases = ctx.share(ctx.tier.pick(4_800, 48_000));
    let max_k = ctx.tier.pick(60_000, 400_000);
    ctx.search("stress", "cfg", cases, cfg(max_k), |c, want_case| {
        let v = check(&mem.borrow(), c);
        if !want_case {
            let mut st = ctx.stats();
            if !st.is_frozen() {
                st.eval();
                let engines: std::collections::BTreeSet<u8> = c.threads.iter().map(|t| t.engine % 3).collect();
                st.class(&format!("threads:{}", c.threads.len()));
                st.class(if c.wide { "width:8" } else { "width:4" });
                st.class(&format!("distinct-engines:{}", engines.len()));
                if c.misalign != 0 {
                    st.class("misaligned-sub-case");
                }
                for t in &c.threads {
                    st.class(&format!("{}:base-r{}", ENGINES[t.engine as usize % 3].name(), t.registers().0));
                    if t.engine % 3 != 1 {
                        st.class(&format!("{}:{}", ENGINES[t.engine as usize % 3].name(), ["word-in-registered-range", "packet-ends-at-the-word+registered-word", "word-inside-packet", "packet-is-the-word"][if t.engine % 3 == 2 && t.access % 4 != 2 { 3 } else { t.access as usize % 4 }]));
                    }
                }
                let busy: std::collections::BTreeSet<u8> = c.threads.iter().filter(|t| t.k >= 10_000).map(|t| t.engine % 3).collect();
                if c.threads.iter().filter(|t| t.k >= 10_000).count() >= 2 && busy.len() >= 2 {
                    st.nontrivial(fnv_str(&format!("{c:?}")));
                }
                st.sample(3, || to_json(c));
            }
        }
        (v, if want_case { to_json(c) } else { Value::Null })
    });
}

fn replay(_ctx: &Ctx, _kind: &str, case: &Value) -> Verdict {
    match from_json(case) {
        Some(c) => {
            // schedules are not reproducible: repeat the configuration a few times
            let mem = Mem18::new();
            for _ in 0..5 {
                let v = check(&mem, &c);
                if !matches!(v, Verdict::Pass) {
                    return v;
                }
            }
            Verdict::Pass
        }
        None => Verdict::Discard("bad-replay"),
    }
}
