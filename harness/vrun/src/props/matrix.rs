//! Instruction matrix for C01 / C03 / C04: a deterministic enumeration of single-instruction tests
//! - every ALU / JMP / JMP32 / load / store / atomic opcode x every (dst, src) register pair x
//! operand values from a boundary pool - complementing the random program generators, whose
//! coverage of (opcode, dst, src, operand class) tuples is only statistical. Register-specific
//! machine encodings (the host registers that division, multiplication and shifts need, the
//! base registers that need a SIB byte or a displacement) are exactly what such tuples exercise.
//!
//! To keep the cost per test low, 32 tests share one program on the raw-packet VM: each test
//! initialises the registers it reads, executes its instruction and stores its result into its own
//! 8-byte slot of the packet, which every comparison checks byte by byte. A failing program is
//! re-run test by test and the first failing single-test program becomes the replay file.

use crate::engine::*;
use crate::isa::*;
use crate::runner::*;
use std::cell::RefCell;

pub const VALS: [u64; 20] = [
    0,
    1,
    2,
    0x7f,
    0x80,
    0xff,
    0x7fff_ffff,
    0x8000_0000,
    0xffff_ffff,
    0x1_0000_0000,
    0x7fff_ffff_ffff_ffff,
    0x8000_0000_0000_0000,
    0xffff_ffff_ffff_ffff,
    31,
    32,
    33,
    63,
    64,
    0x0123_4567_89ab_cdef,
    0xfedc_ba98_8000_0001,
];

const IMMS: [i32; 14] = [0, 1, -1, 2, 31, 32, 63, 0x7f, 0x80, -128, 0x7fff_ffff, i32::MIN, 0x1234_5678, -0x1234_5678];
const OFFS: [i16; 8] = [0, 8, -8, 120, -128, 128, 2040, -32768];
const PAT_A: u64 = 0x8877_6655_4433_2211;
const PAT_B: u64 = 0xf1e2_d3c4_b5a6_9788;

#[derive(Clone, Debug)]
pub struct MTest {
    /// instructions of the test (registers it reads are initialised by itself)
    pub insns: Vec<Insn>,
    /// register holding the result afterwards
    pub result: u8,
    /// the interpreter's open finding I2 may show on this test: run it alone
    pub alone: bool,
    pub kind: &'static str,
}

fn lddw(out: &mut Vec<Insn>, dst: u8, v: u64) {
    out.push(Insn::new(LDDW, dst, 0, 0, v as u32 as i32));
    out.push(Insn::new(0, 0, 0, 0, (v >> 32) as u32 as i32));
}

fn mix(a: u64, b: u64, c: u64, d: u64) -> usize {
    let mut h = 0x9e37_79b9_7f4a_7c15u64;
    for x in [a, b, c, d] {
        h = (h ^ x).wrapping_mul(0x1000_0000_01b3).rotate_left(29);
    }
    (h >> 20) as usize
}

fn other(regs: &[u8]) -> u8 {
    (0..10u8).find(|r| !regs.contains(r)).unwrap()
}

/// The whole enumeration. `depth` scales the number of operand values per register pair.
pub fn tests(depth: usize) -> Vec<MTest> {
    let mut t: Vec<MTest> = Vec::new();
    let sweep_pairs: [(u8, u8); 3] = [(0, 1), (7, 8), (4, 5)];
    let npairs = VALS.len() * VALS.len();
    // A. ALU, register operand
    for is64 in [true, false] {
        for op in BINARY_ALU_OPS {
            let opc = alu_opc(is64, op, true);
            let mut one = |d: u8, s: u8, a: u64, b: u64| {
                let mut i = Vec::new();
                lddw(&mut i, d, a);
                if s != d {
                    lddw(&mut i, s, b);
                }
                i.push(Insn::new(opc, d, s, 0, 0));
                t.push(MTest { insns: i, result: d, alone: false, kind: "alu-reg" });
            };
            for d in 0..10u8 {
                for s in 0..10u8 {
                    for k in 0..depth {
                        let p = mix(opc as u64, d as u64, s as u64, k as u64) % npairs;
                        one(d, s, VALS[p / VALS.len()], VALS[p % VALS.len()]);
                    }
                }
            }
            for (d, s) in sweep_pairs {
                for p in 0..npairs {
                    one(d, s, VALS[p / VALS.len()], VALS[p % VALS.len()]);
                }
            }
        }
    }
    // B. ALU, immediate operand
    for is64 in [true, false] {
        for op in BINARY_ALU_OPS {
            let opc = alu_opc(is64, op, false);
            for d in 0..10u8 {
                for imm in IMMS {
                    if matches!(op, ALU_DIV | ALU_MOD) && imm == 0 {
                        continue;
                    }
                    if matches!(op, ALU_LSH | ALU_RSH | ALU_ARSH) && (imm < 0 || imm >= if is64 { 64 } else { 32 }) {
                        continue;
                    }
                    for k in 0..depth {
                        let a = VALS[mix(opc as u64, d as u64, imm as u32 as u64, k as u64) % VALS.len()];
                        let mut i = Vec::new();
                        lddw(&mut i, d, a);
                        i.push(Insn::new(opc, d, 0, 0, imm));
                        t.push(MTest { insns: i, result: d, alone: false, kind: "alu-imm" });
                    }
                }
            }
        }
    }
    // C. neg, byte swaps, lddw
    for d in 0..10u8 {
        for a in VALS {
            for opc in [NEG32, NEG64] {
                let mut i = Vec::new();
                lddw(&mut i, d, a);
                i.push(Insn::new(opc, d, 0, 0, 0));
                t.push(MTest { insns: i, result: d, alone: false, kind: "neg" });
            }
            for opc in [LE, BE] {
                for w in [16, 32, 64] {
                    let mut i = Vec::new();
                    lddw(&mut i, d, a);
                    i.push(Insn::new(opc, d, 0, 0, w));
                    t.push(MTest { insns: i, result: d, alone: false, kind: "endian" });
                }
            }
            let mut i = Vec::new();
            lddw(&mut i, d, a);
            t.push(MTest { insns: i, result: d, alone: false, kind: "lddw" });
        }
    }
    // D. conditional jumps, register operand: result 2 if taken, 1 if not
    for is64 in [true, false] {
        for cond in JUMP_CONDS {
            let opc = jmp_opc(is64, cond, true);
            let mut one = |d: u8, s: u8, a: u64, b: u64| {
                let r = other(&[d, s]);
                let mut i = Vec::new();
                lddw(&mut i, d, a);
                if s != d {
                    lddw(&mut i, s, b);
                }
                i.push(Insn::new(alu_opc(true, ALU_MOV, false), r, 0, 0, 2));
                i.push(Insn::new(opc, d, s, 1, 0));
                i.push(Insn::new(alu_opc(true, ALU_MOV, false), r, 0, 0, 1));
                t.push(MTest { insns: i, result: r, alone: false, kind: "jmp-reg" });
            };
            for d in 0..10u8 {
                for s in 0..10u8 {
                    for k in 0..depth {
                        let p = mix(opc as u64, d as u64, s as u64, k as u64) % npairs;
                        one(d, s, VALS[p / VALS.len()], VALS[p % VALS.len()]);
                    }
                }
            }
            for (d, s) in sweep_pairs {
                for p in 0..npairs {
                    one(d, s, VALS[p / VALS.len()], VALS[p % VALS.len()]);
                }
            }
        }
    }
    // E. conditional jumps, immediate operand
    for is64 in [true, false] {
        for cond in JUMP_CONDS {
            let opc = jmp_opc(is64, cond, false);
            for d in 0..10u8 {
                for imm in IMMS {
                    for k in 0..depth {
                        // operands around the immediate as well as from the pool
                        let a = match k % 4 {
                            0 => imm as i64 as u64,
                            1 => imm as u32 as u64,
                            2 => (imm as i64 as u64).wrapping_add(1),
                            _ => VALS[mix(opc as u64, d as u64, imm as u32 as u64, k as u64) % VALS.len()],
                        };
                        let r = other(&[d]);
                        let mut i = Vec::new();
                        lddw(&mut i, d, a);
                        i.push(Insn::new(alu_opc(true, ALU_MOV, false), r, 0, 0, 2));
                        i.push(Insn::new(opc, d, 0, 1, imm));
                        i.push(Insn::new(alu_opc(true, ALU_MOV, false), r, 0, 0, 1));
                        let unsigned_or_eq = matches!(cond, J_EQ | J_NE | J_GT | J_GE | J_LT | J_LE);
                        t.push(MTest { insns: i, result: r, alone: is64 && unsigned_or_eq && imm < 0, kind: "jmp-imm" });
                    }
                }
            }
        }
    }
    // F. loads of every width through every base register (r10 included), every destination
    for w in [1usize, 2, 4, 8] {
        for d in 0..10u8 {
            for s in 0..=10u8 {
                for off in OFFS {
                    let mut i = Vec::new();
                    let t2 = other(&[d, s]);
                    lddw(&mut i, t2, PAT_A);
                    i.push(Insn::new(stx_opc(8), 10, t2, -32, 0));
                    if s == 10 {
                        if off != 0 {
                            continue;
                        }
                        i.push(Insn::new(ldx_opc(w), d, 10, -32, 0));
                    } else {
                        i.push(Insn::new(alu_opc(true, ALU_MOV, true), s, 10, 0, 0));
                        i.push(Insn::new(alu_opc(true, ALU_ADD, false), s, 0, 0, -32 - off as i32));
                        i.push(Insn::new(ldx_opc(w), d, s, off, 0));
                    }
                    t.push(MTest { insns: i, result: d, alone: false, kind: "ldx" });
                }
            }
        }
    }
    // G/H/I. stores and atomic adds of every width through every base register
    for w in [1usize, 2, 4, 8] {
        for d in 0..=10u8 {
            for off in OFFS {
                if d == 10 && off != 0 {
                    continue;
                }
                let eff_off = if d == 10 { -48 } else { off };
                let prep = |i: &mut Vec<Insn>, avoid: &[u8]| -> u8 {
                    let t2 = other(avoid);
                    lddw(i, t2, PAT_B);
                    i.push(Insn::new(stx_opc(8), 10, t2, -48, 0));
                    if d != 10 {
                        i.push(Insn::new(alu_opc(true, ALU_MOV, true), d, 10, 0, 0));
                        i.push(Insn::new(alu_opc(true, ALU_ADD, false), d, 0, 0, -48 - off as i32));
                    }
                    t2
                };
                for imm in [0i32, -1, 0x1234_5678, i32::MIN] {
                    let mut i = Vec::new();
                    let t2 = prep(&mut i, &[d]);
                    i.push(Insn::new(st_opc(w), d, 0, eff_off, imm));
                    i.push(Insn::new(ldx_opc(8), t2, 10, -48, 0));
                    t.push(MTest { insns: i, result: t2, alone: false, kind: "st" });
                }
                for s in 0..10u8 {
                    if s == d {
                        continue;
                    }
                    let v = VALS[mix(w as u64, d as u64, s as u64, off as u16 as u64) % VALS.len()] ^ 0x0102_0304_0506_0708;
                    let mut i = Vec::new();
                    let t2 = prep(&mut i, &[d, s]);
                    lddw(&mut i, s, v);
                    i.push(Insn::new(stx_opc(w), d, s, eff_off, 0));
                    i.push(Insn::new(ldx_opc(8), t2, 10, -48, 0));
                    t.push(MTest { insns: i, result: t2, alone: false, kind: "stx" });
                    if w >= 4 {
                        let mut i = Vec::new();
                        let t2 = prep(&mut i, &[d, s]);
                        lddw(&mut i, s, v);
                        i.push(Insn::new(xadd_opc(w), d, s, eff_off, 0));
                        i.push(Insn::new(ldx_opc(8), t2, 10, -48, 0));
                        t.push(MTest { insns: i, result: t2, alone: false, kind: "xadd" });
                    }
                }
            }
        }
    }
    t
}

// ---- pairs of adjacent instructions, entered in sequence and through a jump to the second ------

/// One instruction form for the pair matrix, on destination `d` / source `s` with immediate `imm`.
#[derive(Clone, Copy, Debug, PartialEq, Eq)]
pub enum Form {
    AluImm(bool, u8),
    AluReg(bool, u8),
    Neg(bool),
    Swap(bool, i32),
    LdxSlot(usize),
    StxSlot(usize),
    StSlot(usize),
    /// conditional jump over one instruction that flips bits of `d`
    JmpImm(bool, u8),
    JmpReg(bool, u8),
}

pub fn pair_forms() -> Vec<Form> {
    let mut f = Vec::new();
    for is64 in [true, false] {
        for op in BINARY_ALU_OPS {
            f.push(Form::AluImm(is64, op));
            f.push(Form::AluReg(is64, op));
        }
        f.push(Form::Neg(is64));
        for cond in [J_EQ, J_NE, J_GT, J_SGT, J_SET, J_LT] {
            f.push(Form::JmpImm(is64, cond));
        }
        f.push(Form::JmpReg(is64, J_EQ));
        f.push(Form::JmpReg(is64, J_GT));
    }
    for w in [16, 32, 64] {
        f.push(Form::Swap(false, w));
        f.push(Form::Swap(true, w));
    }
    for w in [4usize, 8] {
        f.push(Form::LdxSlot(w));
        f.push(Form::StxSlot(w));
        f.push(Form::StSlot(w));
    }
    f
}

const SLOT: i16 = -40;
const FLIP: i32 = 0x5a5a_5a5a;

/// None = the immediate is not valid for this form.
fn emit_form(out: &mut Vec<Insn>, f: Form, d: u8, s: u8, imm: i32, bare_jump: Option<i16>) -> Option<()> {
    match f {
        Form::AluImm(is64, op) => {
            if matches!(op, ALU_DIV | ALU_MOD) && imm == 0 {
                return None;
            }
            if matches!(op, ALU_LSH | ALU_RSH | ALU_ARSH) && (imm < 0 || imm >= if is64 { 64 } else { 32 }) {
                return None;
            }
            out.push(Insn::new(alu_opc(is64, op, false), d, 0, 0, imm));
        }
        Form::AluReg(is64, op) => out.push(Insn::new(alu_opc(is64, op, true), d, s, 0, 0)),
        Form::Neg(is64) => out.push(Insn::new(if is64 { NEG64 } else { NEG32 }, d, 0, 0, 0)),
        Form::Swap(be, w) => out.push(Insn::new(if be { BE } else { LE }, d, 0, 0, w)),
        Form::LdxSlot(w) => out.push(Insn::new(ldx_opc(w), d, 10, SLOT, 0)),
        Form::StxSlot(w) => out.push(Insn::new(stx_opc(w), 10, d, SLOT, 0)),
        Form::StSlot(w) => out.push(Insn::new(st_opc(w), 10, 0, SLOT, imm)),
        // in first position a conditional jump is emitted bare, so that it is physically adjacent to
        // the second instruction (compare-and-branch fusion, shared flags); when taken it skips the
        // second instruction - it must not make the second instruction a jump target itself
        Form::JmpImm(is64, cond) => {
            out.push(Insn::new(jmp_opc(is64, cond, false), d, 0, bare_jump.unwrap_or(1), imm));
            if bare_jump.is_none() {
                out.push(Insn::new(alu_opc(true, ALU_XOR, false), d, 0, 0, FLIP));
            }
        }
        Form::JmpReg(is64, cond) => {
            out.push(Insn::new(jmp_opc(is64, cond, true), d, s, bare_jump.unwrap_or(1), 0));
            if bare_jump.is_none() {
                out.push(Insn::new(alu_opc(true, ALU_XOR, false), d, 0, 0, FLIP));
            }
        }
    }
    Some(())
}

#[derive(Clone, Debug)]
pub struct PTest {
    /// loads the operands into d and s (the pattern for the stack slot goes through t)
    pub setup: Vec<Insn>,
    pub first: Vec<Insn>,
    pub second: Vec<Insn>,
    pub d: u8,
    /// scratch registers that may be clobbered around the pair
    pub t: u8,
    pub c: u8,
    pub alone: bool,
}

const PAIR_IMMS: [i32; 12] = [32, 1, 8, 16, 24, 31, 0, -1, 0xff, 0xffff, 0x7fff_ffff, 63];

/// All ordered pairs of forms on the same destination register; the first instruction is skipped
/// when the flag word (stack slot r10-16, copied from the packet's tail at program start) is
/// non-zero, so that the second one is a jump target reached with the first one not executed.
pub fn pair_tests(depth: usize) -> Vec<PTest> {
    let forms = pair_forms();
    let regsets: [(u8, u8); 3] = [(1, 2), (7, 0), (3, 0)];
    let mut out = Vec::new();
    for (ri, (d, s)) in regsets.iter().enumerate() {
        let rest: Vec<u8> = (0..10u8).filter(|r| r != d && r != s).collect();
        let (t, c) = (rest[0], rest[1]);
        for (ai, fa) in forms.iter().enumerate() {
            for (bi, fb) in forms.iter().enumerate() {
                let mut imm_pairs: Vec<(i32, i32)> = PAIR_IMMS.iter().map(|i| (*i, *i)).collect();
                for k in 0..depth {
                    let h = mix(ai as u64, bi as u64, ri as u64, k as u64);
                    imm_pairs.push((PAIR_IMMS[h % 12], PAIR_IMMS[(h / 12) % 12]));
                }
                for (n, (ia, ib)) in imm_pairs.into_iter().enumerate() {
                    // forms without an immediate need only one variant per partner immediate
                    let a_has = matches!(fa, Form::AluImm(..) | Form::StSlot(_) | Form::JmpImm(..));
                    let b_has = matches!(fb, Form::AluImm(..) | Form::StSlot(_) | Form::JmpImm(..));
                    if (!a_has && !b_has && n > 0) || (n >= 12 && !(a_has && b_has)) {
                        continue;
                    }
                    let h = mix(ai as u64, bi as u64, n as u64, ri as u64);
                    let a = if h & 1 == 0 { 0x1122_3344_5566_7788 } else { VALS[(h >> 1) % VALS.len()] };
                    let b = VALS[(h >> 8) % VALS.len()];
                    let mut setup = Vec::new();
                    lddw(&mut setup, *d, a);
                    lddw(&mut setup, *s, b);
                    lddw(&mut setup, t, PAT_A);
                    let mut second = Vec::new();
                    if emit_form(&mut second, *fb, *d, *s, ib, None).is_none() {
                        continue;
                    }
                    let mut first = Vec::new();
                    if emit_form(&mut first, *fa, *d, *s, ia, Some(second.len() as i16)).is_none() {
                        continue;
                    }
                    let i2_risky = |f: &Form, imm: i32| matches!(f, Form::JmpImm(true, J_EQ | J_NE | J_GT | J_LT) if imm < 0);
                    out.push(PTest { setup, first, second, d: *d, t, c, alone: i2_risky(fa, ia) || i2_risky(fb, ib) });
                }
            }
        }
    }
    out
}

pub const PAIR_BATCH: usize = 24;

#[derive(Clone, Copy, Debug, PartialEq, Eq)]
pub enum Entry {
    /// first and second instruction executed in sequence
    Sequence,
    /// the first one is jumped over: the second one is a jump target
    Jump,
    /// the pair lies in a function of its own and a local call enters at the second instruction
    Call,
}

pub fn pair_program(tests: &[&PTest], entry: Entry) -> ExecCase {
    let mut out: Vec<Insn> = Vec::new();
    let n = tests.len();
    out.push(Insn::new(stx_opc(8), 10, 1, -8, 0));
    out.push(Insn::new(ldx_opc(8), 2, 1, (16 * n) as i16, 0));
    out.push(Insn::new(stx_opc(8), 10, 2, -16, 0));
    // the callee's frame lies 256 bytes below the caller's
    let slot = if entry == Entry::Call { SLOT - 256 } else { SLOT };
    let mut calls: Vec<usize> = Vec::new();
    for (k, t) in tests.iter().enumerate() {
        out.extend_from_slice(&t.setup);
        out.push(Insn::new(stx_opc(8), 10, t.t, slot, 0));
        if entry == Entry::Call {
            calls.push(out.len());
            out.push(Insn::new(CALL, 0, 1, 0, 0));
        } else {
            out.push(Insn::new(ldx_opc(8), t.c, 10, -16, 0));
            out.push(Insn::new(jmp_opc(true, J_NE, false), t.c, 0, t.first.len() as i16, 0));
            out.extend_from_slice(&t.first);
            out.extend_from_slice(&t.second);
        }
        out.push(Insn::new(ldx_opc(8), t.t, 10, -8, 0));
        out.push(Insn::new(stx_opc(8), t.t, t.d, (16 * k) as i16, 0));
        let p = other(&[t.t]);
        out.push(Insn::new(ldx_opc(8), p, 10, slot, 0));
        out.push(Insn::new(stx_opc(8), t.t, p, (16 * k + 8) as i16, 0));
    }
    out.push(Insn::new(alu_opc(true, ALU_MOV, false), 0, 0, 0, n as i32));
    out.push(Insn::new(EXIT, 0, 0, 0, 0));
    if entry == Entry::Call {
        for (k, t) in tests.iter().enumerate() {
            out.extend_from_slice(&t.first);
            let target = out.len();
            out[calls[k]].imm = (target as i64 - calls[k] as i64 - 1) as i32;
            out.extend_from_slice(&t.second);
            out.push(Insn::new(EXIT, 0, 0, 0, 0));
        }
    }
    let mut c = ExecCase::new(VmKind::Raw, encode_prog(&out));
    c.pkt = vec![0xa5; 16 * n + 8];
    let flag: u64 = if entry == Entry::Jump { 1 } else { 0 };
    c.pkt[16 * n..].copy_from_slice(&flag.to_le_bytes());
    c
}

/// `with_calls`: also enter the second instruction through a local call (engines that support
/// eBPF-to-eBPF calls; operands in caller-saved registers only, since r6-r9 are restored on return).
pub fn run_pairs(ctx: &Ctx, runner: &RefCell<Runner>, depth: usize, with_calls: bool, check: &dyn Fn(&mut Runner, &mut ExecCase) -> Verdict) -> bool {
    let all = pair_tests(depth);
    let (alone, batched): (Vec<&PTest>, Vec<&PTest>) = all.iter().partition(|t| t.alone);
    let mut groups: Vec<Vec<&PTest>> = batched.chunks(PAIR_BATCH).map(|c| c.to_vec()).collect();
    groups.extend(alone.into_iter().map(|t| vec![t]));
    for (gi, g) in groups.iter().enumerate() {
        if gi % ctx.nworkers != ctx.worker {
            continue;
        }
        for entry in [Entry::Sequence, Entry::Jump, Entry::Call] {
            if entry == Entry::Call && (!with_calls || g.iter().any(|t| t.d > 5)) {
                continue;
            }
            let mut case = pair_program(g, entry);
            let v = check(&mut runner.borrow_mut(), &mut case);
            {
                let mut st = ctx.stats();
                st.evaluations += g.len() as u64;
                st.class("pair-matrix:programs");
                st.class_n(
                    match entry {
                        Entry::Sequence => "pair-matrix:in-sequence",
                        Entry::Jump => "pair-matrix:second-instruction-entered-by-jump",
                        Entry::Call => "pair-matrix:second-instruction-entered-by-local-call",
                    },
                    g.len() as u64,
                );
                st.distinct_by_construction += g.len() as u64;
            }
            if !matches!(v, Verdict::Fail { .. }) {
                if ctx.enumerate_case(v, "exec", || case.to_json()) {
                    return true;
                }
                continue;
            }
            let mut reported = false;
            for t in g {
                let mut single = pair_program(&[*t], entry);
                let v1 = check(&mut runner.borrow_mut(), &mut single);
                if matches!(v1, Verdict::Fail { .. }) {
                    reported = ctx.enumerate_case(v1, "exec", || single.to_json());
                    break;
                }
            }
            if !reported && ctx.enumerate_case(v, "exec", || case.to_json()) {
                reported = true;
            }
            if reported {
                return true;
            }
        }
    }
    false
}

pub const BATCH: usize = 32;
/// bytes after the result slots that ldabs / ldind tests read
const TAIL: usize = 16;

/// One program for up to BATCH tests.
pub fn program(tests: &[&MTest]) -> ExecCase {
    let mut out: Vec<Insn> = Vec::new();
    out.push(Insn::new(stx_opc(8), 10, 1, -8, 0));
    for (k, t) in tests.iter().enumerate() {
        out.extend_from_slice(&t.insns);
        let p = other(&[t.result]);
        out.push(Insn::new(ldx_opc(8), p, 10, -8, 0));
        out.push(Insn::new(stx_opc(8), p, t.result, (8 * k) as i16, 0));
    }
    out.push(Insn::new(alu_opc(true, ALU_MOV, false), 0, 0, 0, tests.len() as i32));
    out.push(Insn::new(EXIT, 0, 0, 0, 0));
    let mut c = ExecCase::new(VmKind::Raw, encode_prog(&out));
    c.pkt = vec![0xa5; 8 * tests.len() + TAIL];
    for (k, b) in c.pkt.iter_mut().rev().take(TAIL).enumerate() {
        *b = 0x10 + k as u8;
    }
    c
}

/// Run the enumeration share of this worker through `check`; returns true if a violation was
/// recorded. `every`: use only every n-th batch (engines that are slow to compile, quick tier).
pub fn run(ctx: &Ctx, runner: &RefCell<Runner>, depth: usize, every: usize, check: &dyn Fn(&mut Runner, &mut ExecCase) -> Verdict) -> bool {
    let all = tests(depth);
    let (alone, batched): (Vec<&MTest>, Vec<&MTest>) = all.iter().partition(|t| t.alone);
    let mut groups: Vec<Vec<&MTest>> = batched.chunks(BATCH).map(|c| c.to_vec()).collect();
    groups.extend(alone.into_iter().map(|t| vec![t]));
    for (gi, g) in groups.iter().enumerate() {
        if gi % ctx.nworkers != ctx.worker || (gi / ctx.nworkers) % every != 0 {
            continue;
        }
        let mut case = program(g);
        let v = check(&mut runner.borrow_mut(), &mut case);
        {
            let mut st = ctx.stats();
            st.evaluations += g.len() as u64;
            st.class("matrix:programs");
            for t in g {
                st.class(&format!("matrix:{}", t.kind));
            }
            st.distinct_by_construction += g.len() as u64;
        }
        if !matches!(v, Verdict::Fail { .. }) {
            if ctx.enumerate_case(v, "exec", || case.to_json()) {
                return true;
            }
            continue;
        }
        // localise: the first test that fails on its own
        let mut reported = false;
        for t in g {
            let mut single = program(&[*t]);
            let v1 = check(&mut runner.borrow_mut(), &mut single);
            if matches!(v1, Verdict::Fail { .. }) {
                reported = ctx.enumerate_case(v1, "exec", || single.to_json());
                break;
            }
        }
        if !reported && ctx.enumerate_case(v, "exec", || case.to_json()) {
            reported = true;
        }
        if reported {
            return true;
        }
    }
    false
}
