//! C08 - helper calls follow the documented contract in every engine.

use super::PropDef;
use crate::engine::*;
use crate::execcheck::*;
use crate::gen::interesting_u64;
use crate::isa::{self, *};
use crate::model::{MErr, MOut, Quirks};
use crate::runner::*;
use proptest::prelude::*;
use serde_json::Value;
use std::cell::RefCell;

pub fn def() -> PropDef {
    PropDef {
        info: PropInfo {
            id: "C08",
            rule: "programs with 1-4 helper call sites, on each of the four VM kinds; helpers are registered in an order that is a function of the case (listed, reversed, rotated, shuffled); helper ids from {0,1,6,0x7fffffff,0x80000000,0xffffffff,random u32}, a random subset registered onto three distinct instrumented 5-argument helpers; each site loads five boundary-heavy, pairwise distinct arguments into r1-r5, keeps sentinels in r6-r9 and a spilled copy of r10, runs under a stack-usage calculator returning a generated frame size from {0,8,16,24,40,56,256} for every function or under no calculator at all (default 256-byte frames), and is placed at top level or inside local functions at depth 1-8, the deepest legal nesting (depth 1 with 256-byte frames) (interpreter and JIT; Cranelift gets the top-level-only programs); call instructions carry junk dst/off fields; unregistered ids are placed on executed or on never-executed paths. Every helper is entered through an assembly stub that records rsp. Oracle per engine: log of (function identity, a1..a5) equals the reference model's call sequence, (rsp+8)%16==0 at every call, result equals the model, sentinels and r10 fold to the expected value; an unregistered id gives an interpreter Err only if reached (and Ok with the model value if not), gives a compile-time Err from both compilers, and nothing is invoked beyond the model's log. Non-trivial = at least one executed helper call with pairwise distinct arguments; distinct by hash.",
            assumptions: &["the Rust-ABI helper type coincides with the C ABI for five u64 arguments on x86-64 (rbpf's JITs rely on the same fact)", "reference model for register effects of call/exit"],
        },
        run,
        replay,
        single_worker: false,
    }
}

#[derive(Clone, Debug)]
pub struct Site {
    id_sel: u8,
    args: [u64; 5],
    depth: u8,
    junk: u32,
    /// put the call on a path that is never executed
    dead: bool,
}

#[derive(Clone, Debug)]
pub struct HProg {
    /// (id, Some(pool index) if registered)
    ids: Vec<(u32, Option<u8>)>,
    sites: Vec<Site>,
    sentinels: [u64; 4],
    /// VM kind selector: no-data, raw, metadata, fixed-metadata
    vm: u8,
    /// frame size returned by the stack-usage calculator for every function (0 = shared frame)
    frame: u16,
}

fn id_strategy() -> impl Strategy<Value = u32> {
    prop_oneof![3 => prop::sample::select(vec![0u32, 1, 2, 6, 0x7fff_ffff, 0x8000_0000, 0xffff_ffff, 0xffff_fffe, 20]), 2 => any::<u32>()]
}

pub fn hprog(max_depth: u8) -> impl Strategy<Value = HProg> {
    let ids = prop::collection::vec((id_strategy(), prop_oneof![6 => prop::sample::select(vec![0u8, 1, 6]).prop_map(Some), 1 => Just(None)]), 1..4);
    let site = (any::<u8>(), [interesting_u64(), interesting_u64(), interesting_u64(), interesting_u64(), interesting_u64()], 0..=max_depth, any::<u32>(), prop::bool::weighted(0.1))
        .prop_map(|(id_sel, args, depth, junk, dead)| Site { id_sel, args, depth, junk, dead });
    (ids, prop::collection::vec(site, 1..5), [interesting_u64(), interesting_u64(), interesting_u64(), interesting_u64()], 0u8..4, prop::sample::select(vec![0u16, 0, 8, 16, 24, 40, 56, 256, 257]))
        .prop_map(|(ids, sites, sentinels, vm, frame)| HProg { ids, sites, sentinels, vm, frame })
}

fn lddw(out: &mut Vec<Insn>, dst: u8, v: u64) {
    out.push(Insn::new(LDDW, dst, 0, 0, v as u32 as i32));
    out.push(Insn::new(0, 0, 0, 0, (v >> 32) as u32 as i32));
}

pub fn lower(p: &HProg) -> ExecCase {
    // frame 256 = no calculator at all (the default frames), 257 = a calculator that returns the
    // default size 256; with 256-byte frames only one level of nesting fits into the stack
    let clamped;
    let p = if p.frame >= 256 {
        let mut q = p.clone();
        for s in q.sites.iter_mut() {
            s.depth = s.depth.min(1);
        }
        clamped = q;
        &clamped
    } else {
        p
    };
    let mut ids = p.ids.clone();
    ids.sort_by_key(|x| x.0);
    ids.dedup_by_key(|x| x.0);
    let mut out: Vec<Insn> = Vec::new();
    // prologue: spill r10, zero the accumulator, sentinels
    out.push(Insn::new(alu_opc(true, ALU_MOV, true), 1, 10, 0, 0));
    out.push(Insn::new(stx_opc(8), 10, 1, -16, 0));
    out.push(Insn::new(st_opc(8), 10, 0, -8, 0));
    for (k, s) in p.sentinels.iter().enumerate() {
        lddw(&mut out, 6 + k as u8, *s);
    }
    let mut fixups: Vec<(usize, usize)> = Vec::new(); // (call insn index, site)
    for (k, site) in p.sites.iter().enumerate() {
        let (id, _) = ids[site.id_sel as usize % ids.len()];
        // pairwise distinct arguments
        let mut args = site.args;
        for i in 0..5 {
            for j in 0..i {
                if args[i] == args[j] {
                    args[i] = args[i].wrapping_add(0x0101_0101 * (i as u64 + 1));
                }
            }
        }
        for (i, a) in args.iter().enumerate() {
            lddw(&mut out, i as u8 + 1, *a);
        }
        if site.dead {
            out.push(Insn::new(JA, 0, 0, 1, 0));
        }
        if site.depth == 0 {
            out.push(Insn::new(CALL, (site.junk % 10) as u8, 0, (site.junk >> 8) as i16, id as i32));
        } else {
            fixups.push((out.len(), k));
            out.push(Insn::new(CALL, (site.junk % 10) as u8, 1, (site.junk >> 8) as i16, 0));
        }
        if site.dead {
            // r0 would be undefined if the call is skipped: define it
            out.push(Insn::new(alu_opc(true, ALU_MOV, false), 0, 0, 0, k as i32 + 77));
        }
        // fold r0 into the accumulator
        out.push(Insn::new(ldx_opc(8), 1, 10, -8, 0));
        out.push(Insn::new(alu_opc(true, ALU_MUL, false), 1, 0, 0, 31));
        out.push(Insn::new(alu_opc(true, ALU_ADD, true), 1, 0, 0, 0));
        out.push(Insn::new(stx_opc(8), 10, 1, -8, 0));
    }
    // epilogue: r0 = acc folded with r6-r9 and (r10 - spilled r10)
    out.push(Insn::new(ldx_opc(8), 0, 10, -8, 0));
    for r in 6..=9u8 {
        out.push(Insn::new(alu_opc(true, ALU_MUL, false), 0, 0, 0, 1_000_003));
        out.push(Insn::new(alu_opc(true, ALU_XOR, true), 0, r, 0, 0));
    }
    out.push(Insn::new(ldx_opc(8), 1, 10, -16, 0));
    out.push(Insn::new(alu_opc(true, ALU_MOV, true), 2, 10, 0, 0));
    out.push(Insn::new(alu_opc(true, ALU_SUB, true), 2, 1, 0, 0));
    out.push(Insn::new(alu_opc(true, ALU_ADD, true), 0, 2, 0, 0));
    out.push(Insn::new(EXIT, 0, 0, 0, 0));
    // function chains for nested sites
    for (at, k) in fixups {
        let site = &p.sites[k];
        let (id, _) = ids[site.id_sel as usize % ids.len()];
        let entry = out.len();
        out[at].imm = (entry as i64 - at as i64 - 1) as i32;
        for level in 1..=site.depth {
            if level == site.depth {
                out.push(Insn::new(CALL, ((site.junk >> 4) % 10) as u8, 0, (site.junk >> 12) as i16, id as i32));
            } else {
                // call the next function of the chain, which follows directly after our exit
                out.push(Insn::new(CALL, 0, 1, 0, 1));
            }
            out.push(Insn::new(EXIT, 0, 0, 0, 0));
        }
    }
    let vm = match p.vm % 4 {
        0 => VmKind::NoData,
        1 => VmKind::Raw,
        2 => VmKind::Mbuff { data_off: 8, end_off: 16 },
        _ => VmKind::Fixed { data_off: 0x40, end_off: 0x50 },
    };
    let mut case = ExecCase::new(vm, encode_prog(&out));
    if p.vm % 4 != 0 {
        case.pkt = vec![1, 2, 3, 4];
    }
    if p.vm % 4 == 2 {
        case.mbuff = vec![0; 32];
    }
    case.helpers = ids.iter().filter_map(|(id, p)| p.map(|p| (*id, p))).collect();
    // nested chains deeper than one level need small frames: 512 / 256 only allows depth 1
    case.calc = match p.frame {
        256 => None,
        257 => Some((vec![], 256)),
        f => Some((vec![], f)),
    };
    case
}

pub fn check(runner: &mut Runner, case: &mut ExecCase, engines: &[Engine], st: Option<&mut Stats>) -> Verdict {
    let addr = runner.pkt_addr(case);
    let m = model_run(case, addr, Quirks::default(), 100_000);
    let registered: std::collections::HashSet<u32> = case.helpers.iter().map(|h| h.0).collect();
    let prog = isa::decode_prog(&case.prog);
    let has_unregistered = prog.iter().any(|x| x.opc == CALL && x.src == 0 && !registered.contains(&(x.imm as u32)));
    let has_local = prog.iter().any(|x| x.opc == CALL && x.src == 1);
    let pool_of = |id: u32| case.helpers.iter().find(|h| h.0 == id).map(|h| h.1 as u32);
    let want_log: Vec<(u32, [u64; 5])> = m.trace.helper_log.iter().map(|(id, a)| (pool_of(*id).unwrap_or(99), *a)).collect();
    if let Some(st) = st {
        st.eval();
        match &m.out {
            MOut::Ret(_) => st.class("model:returns"),
            MOut::Err(MErr::UnknownHelper) => st.class("model:unknown-helper-reached"),
            other => {
                *st.discarded.entry(format!("model:{other:?}")).or_insert(0) += 1;
                return Verdict::Pass;
            }
        }
        if has_unregistered {
            st.class("has-unregistered-id");
        }
        for d in 0..10 {
            if m.trace.depth_hist[d] > 0 {
                st.class_n(&format!("helper-call-at-depth-{d}"), m.trace.depth_hist[d] as u64);
            }
        }
        if !want_log.is_empty() {
            st.nontrivial(case.hash());
        }
        st.sample(3, || serde_json::json!({"helpers": case.helpers, "listing": isa::listing(&case.prog, 50), "model": format!("{:?}", m.out), "calls": want_log.len()}));
    } else if !matches!(m.out, MOut::Ret(_) | MOut::Err(MErr::UnknownHelper)) {
        return Verdict::Discard("model-undefined");
    }
    case.budget = 100 * m.trace.steps + 10_000;
    let engines: Vec<Engine> = engines.iter().copied().filter(|e| !(has_local && *e == Engine::Cranelift)).collect();
    let res = runner.run(case, &engines);
    let desc = || format!("helpers(id,pool)={:?}\n{}", case.helpers, isa::listing(&case.prog, 70).join("\n"));
    for r in &res {
        let eng = r.engine.name();
        let compiled = r.engine != Engine::Interp;
        let got_log: Vec<(u32, [u64; 5])> = r.hlog.iter().map(|h| (h.pool, h.args)).collect();
        if compiled && has_unregistered {
            // must be refused at compile time, and nothing may have been invoked
            match &r.outcome {
                Outcome::CompileErr(_) => {
                    if r.hlog_total != 0 {
                        return Verdict::fail(format!("{eng}:helper-invoked-during-failed-compile"), desc());
                    }
                    continue;
                }
                Outcome::Hang { .. } => return Verdict::Inconclusive(format!("{eng} hit the watchdog")),
                other => {
                    return Verdict::fail(
                        format!("{eng}:unregistered-helper-not-refused"),
                        format!("{eng}: {} for a program that calls an unregistered helper id\n{}", other.short(), desc()),
                    )
                }
            }
        }
        // outcome
        match (&m.out, &r.outcome) {
            (_, Outcome::Hang { .. }) => return Verdict::Inconclusive(format!("{eng} hit the watchdog")),
            (MOut::Ret(w), Outcome::Ok(g)) if w == g => {}
            (MOut::Err(_), Outcome::Err(_)) if !compiled => {}
            (want, got) => {
                let sig = match got {
                    Outcome::Ok(_) => format!("{eng}:wrong-result"),
                    o => format!("{eng}:{}", outcome_sig(o)),
                };
                return Verdict::fail(sig, format!("{eng}: {} where the contract gives {want:?}\nexpected calls {want_log:x?}\nobserved calls {got_log:x?}\n{}", got.short(), desc()));
            }
        }
        // call log: which function, how often, which arguments, in which order
        if got_log != want_log || r.hlog_total as usize != want_log.len() {
            return Verdict::fail(format!("{eng}:wrong-call-sequence"), format!("{eng}: expected calls (pool, args) {want_log:x?}\nobserved {got_log:x?} (total {})\n{}", r.hlog_total, desc()));
        }
        if let Some(h) = r.hlog.iter().find(|h| h.align != 0) {
            let depths: Vec<u32> = r.hlog.iter().map(|h| h.align).collect();
            return Verdict::fail(
                format!("{eng}:stack-misaligned-at-helper-call"),
                format!("{eng}: helper entered with (rsp+8)%16 = {} (per call: {depths:?}); the C ABI requires 0\n{}", h.align, desc()),
            );
        }
    }
    Verdict::Pass
}

fn run(ctx: &Ctx) {
    let runner = RefCell::new(Runner::new());
    ctx.shrink_iters.set(3000);
    let cases = ctx.share(ctx.tier.pick(64_000, 1_280_000));
    ctx.search("nested", "exec", cases, hprog(8), |p, want_case| {
        let mut case = lower(p);
        let mut st = ctx.stats();
        let frozen = st.is_frozen() || want_case;
        let v = check(&mut runner.borrow_mut(), &mut case, &[Engine::Interp, Engine::Jit], if frozen { None } else { Some(&mut st) });
        (v, if want_case { case.to_json() } else { Value::Null })
    });
    let cases = ctx.share(ctx.tier.pick(16_000, 320_000));
    ctx.search("toplevel", "exec3", cases, hprog(0), |p, want_case| {
        let mut case = lower(p);
        let mut st = ctx.stats();
        let frozen = st.is_frozen() || want_case;
        if !frozen {
            st.class("three-engine-case");
        }
        let v = check(&mut runner.borrow_mut(), &mut case, &[Engine::Interp, Engine::Jit, Engine::Cranelift], if frozen { None } else { Some(&mut st) });
        (v, if want_case { case.to_json() } else { Value::Null })
    });
}

fn replay(_ctx: &Ctx, kind: &str, case: &Value) -> Verdict {
    let mut c = ExecCase::from_json(case);
    let engines: &[Engine] = if kind == "exec3" { &[Engine::Interp, Engine::Jit, Engine::Cranelift] } else { &[Engine::Interp, Engine::Jit] };
    check(&mut Runner::new(), &mut c, engines, None)
}
