//! Packet accesses far into a large packet (C01 / C03 / C04 share this stream).
//!
//! The structured generator keeps packets below 8 KiB, so a packet load whose immediate does not
//! fit in 15 / 16 bits, an `ldx`/`stx` with an offset near +-32768, or a pointer advanced by more
//! than 64 KiB never addresses packet bytes there. Here the packet has 32 KiB - 160 KiB and one
//! access lands, in bounds, at a generated position; the expected value is the packet's own
//! bytes at that position (every position holds a different pattern).

use crate::engine::{splitmix, Ctx, Verdict};
use crate::isa::{self, *};
use crate::runner::{Engine, VmKind};
use crate::vmx::AnyVm;
use proptest::prelude::*;
use serde_json::{json, Value};

#[derive(Clone, Debug)]
pub struct BigCase {
    /// 0 raw, 1 metadata (user buffer with the two pointers at 0 / 8), 2 fixed-metadata (0x40 / 0x50)
    kind: u8,
    len: u32,
    /// access width 1, 2, 4, 8
    n: u8,
    /// 0 ldabs, 1 ldind, 2 ldx through an advanced pointer, 3 stx through an advanced pointer
    mode: u8,
    /// position of the access in the packet (o + n <= len)
    o: u32,
    /// ldind: value of the index register (k <= o, immediate = o - k); ldx/stx: the pointer is
    /// advanced to `p`, the 16-bit offset is o - p
    k: u32,
    seed: u64,
}

fn pos(len: u32, n: u8) -> impl Strategy<Value = u32> {
    let last = len - n as u32;
    prop_oneof![
        4 => prop::sample::select(vec![0x7ff0u32, 0x7ff8, 0x7ffc, 0x7ffe, 0x7fff, 0x8000, 0x8001, 0x8008, 0xfff8, 0xfffe, 0xffff, 0x1_0000, 0x1_0001, 0x1_0008, 0x1_8000, 0x2_0000]),
        2 => (0u32..9).prop_map(move |d| last.saturating_sub(d)),
        2 => 0u32..=last,
        1 => 0u32..64,
    ]
    .prop_map(move |o| o.min(last))
}

pub fn case() -> impl Strategy<Value = BigCase> {
    let len = prop_oneof![
        3 => prop::sample::select(vec![32_767u32, 32_768, 32_769, 32_776, 40_000, 65_535, 65_536, 65_537, 65_544, 70_000, 100_000, 131_080]),
        1 => 32_768u32..163_840,
    ];
    (0u8..3, len, prop::sample::select(vec![1u8, 2, 4, 8]), 0u8..4, any::<u64>(), any::<u16>(), 0u8..8)
        .prop_flat_map(|(kind, len, n, mode, seed, split, kcls)| {
            pos(len, n).prop_map(move |o| {
                let k = match mode {
                    1 => match kcls {
                        0 => 0,
                        1 => o,
                        2 => o.saturating_sub(0x7fff),
                        3 => o.saturating_sub(0x8000),
                        4 => o.saturating_sub(0xffff),
                        5 => o.saturating_sub(0x1_0000),
                        _ => ((split as u64 * (o as u64 + 1)) >> 16) as u32,
                    },
                    2 | 3 => {
                        // p in [o - 32767, o + 32768] and inside [0, len]
                        let lo = o.saturating_sub(32_767);
                        let hi = (o + 32_768).min(len);
                        match kcls {
                            0 => lo,
                            1 => hi,
                            2 => (lo + 1).min(hi),
                            3 => hi.saturating_sub(1).max(lo),
                            4 => o,
                            _ => lo + ((split as u64 * (hi - lo + 1) as u64) >> 16) as u32,
                        }
                    }
                    _ => 0,
                };
                BigCase { kind, len, n, mode, o, k, seed }
            })
        })
}

fn byte_at(seed: u64, i: u64) -> u8 {
    (splitmix(seed ^ i.wrapping_mul(0x9e37_79b9_7f4a_7c15)) >> 24) as u8
}

fn vm_kind(c: &BigCase) -> VmKind {
    match c.kind % 3 {
        0 => VmKind::Raw,
        1 => VmKind::Mbuff { data_off: 0, end_off: 8 },
        _ => VmKind::Fixed { data_off: 0x40, end_off: 0x50 },
    }
}

const STORE_VAL: u64 = 0xa1b2_c3d4_e5f6_0718;

pub fn program(c: &BigCase) -> Vec<u8> {
    let n = c.n as usize;
    let mut out: Vec<Insn> = vec![];
    match c.mode % 4 {
        0 => out.push(Insn::new(ldabs_opc(n), 0, 0, 0, c.o as i32)),
        1 => {
            out.push(Insn::new(alu_opc(true, ALU_MOV, false), 3, 0, 0, c.k as i32));
            out.push(Insn::new(ldind_opc(n), 0, 3, 0, (c.o - c.k) as i32));
        }
        m => {
            match vm_kind(c) {
                VmKind::Raw => {}
                VmKind::Mbuff { data_off, .. } | VmKind::Fixed { data_off, .. } => out.push(Insn::new(ldx_opc(8), 1, 1, data_off as i16, 0)),
                VmKind::NoData => unreachable!(),
            }
            out.push(Insn::new(alu_opc(true, ALU_ADD, false), 1, 0, 0, c.k as i32));
            let off = (c.o as i64 - c.k as i64) as i16;
            if m == 2 {
                out.push(Insn::new(ldx_opc(n), 0, 1, off, 0));
            } else {
                out.push(Insn::new(LDDW, 2, 0, 0, STORE_VAL as u32 as i32));
                out.push(Insn::new(0, 0, 0, 0, (STORE_VAL >> 32) as u32 as i32));
                out.push(Insn::new(stx_opc(n), 1, 2, off, 0));
                out.push(Insn::new(alu_opc(true, ALU_MOV, false), 0, 0, 0, 0x51));
            }
        }
    }
    out.push(Insn::new(EXIT, 0, 0, 0, 0));
    isa::encode_prog(&out)
}

/// What the access must produce: the return value, and the bytes stored (if a store).
fn expected(c: &BigCase) -> (u64, Option<Vec<u8>>) {
    let n = c.n as usize;
    if c.mode % 4 == 3 {
        return (0x51, Some(STORE_VAL.to_le_bytes()[..n].to_vec()));
    }
    let mut b = [0u8; 8];
    for (j, x) in b.iter_mut().enumerate().take(n) {
        *x = byte_at(c.seed, c.o as u64 + j as u64);
    }
    (u64::from_le_bytes(b), None)
}

/// Child side: run the program on `engine`; (status, value): 1 = returned value (and, for a
/// store, exactly the expected bytes changed), 2 = Err, 3 = panic, 4 = compile error,
/// 5 = load refused, 6 = the packet differs from what it should be at byte `value`.
fn run_engine(c: &BigCase, engine: Engine, pkt: &mut [u8]) -> (u32, u64) {
    let prog: &'static [u8] = Box::leak(program(c).into_boxed_slice());
    let mut vm = match AnyVm::new(vm_kind(c), Some(prog)) {
        Ok(vm) => vm,
        Err(_) => return (5, 0),
    };
    let compiled = super::catch(std::panic::AssertUnwindSafe(|| match engine {
        Engine::Jit => vm.jit_compile(),
        Engine::Cranelift => vm.cranelift_compile(),
        Engine::Interp => Ok(()),
    }));
    match compiled {
        Ok(Ok(())) => {}
        Ok(Err(_)) => return (4, 0),
        Err(_) => return (3, 0),
    }
    let mut mb = [0u8; 32];
    mb[..8].copy_from_slice(&(pkt.as_ptr() as u64).to_le_bytes());
    mb[8..16].copy_from_slice(&(pkt.as_ptr() as u64 + pkt.len() as u64).to_le_bytes());
    let (pa, pl) = (pkt.as_mut_ptr(), pkt.len());
    let r = super::catch(std::panic::AssertUnwindSafe(|| unsafe {
        let p: &'static mut [u8] = std::slice::from_raw_parts_mut(pa, pl);
        let m: &'static mut [u8] = std::slice::from_raw_parts_mut(mb.as_mut_ptr(), mb.len());
        vm.exec(engine, p, m)
    }));
    let v = match r {
        Ok(Ok(v)) => v,
        Ok(Err(_)) => return (2, 0),
        Err(_) => return (3, 0),
    };
    let (_, stored) = expected(c);
    for (i, b) in pkt.iter().enumerate() {
        let mut want = byte_at(c.seed, i as u64);
        if let Some(s) = &stored {
            if i >= c.o as usize && i < c.o as usize + s.len() {
                want = s[i - c.o as usize];
            }
        }
        if *b != want {
            return (6, i as u64);
        }
    }
    (1, v)
}

fn run_forked(c: &BigCase, engine: Engine) -> Result<(u32, u64), i32> {
    let mut pkt: Vec<u8> = (0..c.len as u64).map(|i| byte_at(c.seed, i)).collect();
    super::fork_call(|| run_engine(c, engine, &mut pkt))
}

fn describe(c: &BigCase) -> String {
    format!(
        "{} VM, packet of {} bytes, {}-byte {} at packet offset {:#x} ({})\n{}",
        vm_kind(c).name(),
        c.len,
        c.n,
        ["ldabs", "ldind", "ldx", "stx"][c.mode as usize % 4],
        c.o,
        match c.mode % 4 {
            0 => format!("immediate {:#x}", c.o),
            1 => format!("index register {:#x} + immediate {:#x}", c.k, c.o - c.k),
            _ => format!("pointer advanced by {:#x}, offset {}", c.k, c.o as i64 - c.k as i64),
        },
        isa::listing(&program(c), 10).join("\n")
    )
}

fn outcome_text(r: &Result<(u32, u64), i32>) -> String {
    match r {
        Ok((1, v)) => format!("returned {v:#x}"),
        Ok((2, _)) => "returned an error".into(),
        Ok((3, _)) => "panicked".into(),
        Ok((4, _)) => "did not compile".into(),
        Ok((5, _)) => "program refused".into(),
        Ok((6, i)) => format!("left a wrong byte in the packet at offset {i:#x}"),
        Ok((s, v)) => format!("status {s} value {v:#x}"),
        Err(0) => "child exited without reporting".into(),
        Err(sig) => format!("died with signal {sig}"),
    }
}

/// `engine` = Interp: the interpreter against the packet's own bytes (C01). Otherwise the
/// compiled engine against the interpreter (C03 / C04); the premise is that the interpreter
/// returns a value.
pub fn check(c: &BigCase, engine: Engine) -> Verdict {
    if c.o as u64 + c.n as u64 > c.len as u64 || c.k as u64 > c.len as u64 {
        return Verdict::Discard("bigpkt:not-in-bounds");
    }
    let ri = run_forked(c, Engine::Interp);
    if matches!(ri, Err(14)) {
        return Verdict::Inconclusive("big-packet child hit the watchdog".into());
    }
    let (want, _) = expected(c);
    if engine == Engine::Interp {
        return match ri {
            Ok((1, v)) if v == want => Verdict::Pass,
            other => Verdict::fail(
                format!("interp:bigpkt:{}", match other { Ok((1, _)) => "wrong-value".to_string(), Ok((s, _)) => format!("status-{s}"), Err(s) => format!("signal-{s}") }),
                format!("the interpreter {}; the access is in bounds and must produce {want:#x}\n{}", outcome_text(&other), describe(c)),
            ),
        };
    }
    if !matches!(ri, Ok((1, _))) {
        return Verdict::Discard("bigpkt:interpreter-does-not-return-a-value");
    }
    let rc = run_forked(c, engine);
    if matches!(rc, Err(14)) {
        return Verdict::Inconclusive("big-packet child hit the watchdog".into());
    }
    if rc == ri {
        return Verdict::Pass;
    }
    let name = engine.name();
    Verdict::fail(
        format!("{name}:bigpkt:{}", match rc { Ok((1, _)) => "wrong-value".to_string(), Ok((s, _)) => format!("status-{s}"), Err(s) => format!("signal-{s}") }),
        format!("{name} {}, the interpreter {}\n{}", outcome_text(&rc), outcome_text(&ri), describe(c)),
    )
}

pub fn to_json(c: &BigCase) -> Value {
    json!({"kind": c.kind, "len": c.len, "n": c.n, "mode": c.mode, "o": c.o, "k": c.k, "seed": c.seed.to_string()})
}

pub fn from_json(v: &Value) -> Option<BigCase> {
    Some(BigCase {
        kind: v["kind"].as_u64()? as u8,
        len: v["len"].as_u64()? as u32,
        n: v["n"].as_u64()? as u8,
        mode: v["mode"].as_u64()? as u8,
        o: v["o"].as_u64()? as u32,
        k: v["k"].as_u64()? as u32,
        seed: v["seed"].as_str()?.parse().ok()?,
    })
}

pub fn replay(case: &Value, engine: Engine) -> Verdict {
    match from_json(case) {
        Some(c) if matches!(c.n, 1 | 2 | 4 | 8) && c.len >= 8 => check(&c, engine),
        _ => Verdict::Discard("bad-replay"),
    }
}

pub fn run(ctx: &Ctx, engine: Engine, quick: u64, thorough: u64) {
    let cases = ctx.share(ctx.tier.pick(quick, thorough));
    ctx.shrink_iters.set(400);
    ctx.search("bigpkt", "bigpkt", cases, case(), |c, want_case| {
        let v = check(c, engine);
        if !want_case {
            let mut st = ctx.stats();
            if !st.is_frozen() {
                st.eval();
                if matches!(v, Verdict::Discard(_)) {
                    *st.discarded.entry("bigpkt:premise".into()).or_insert(0) += 1;
                } else {
                    st.class("big-packet-stream");
                    st.class(&format!("bigpkt:{}:{}", vm_kind(c).name(), ["ldabs", "ldind", "ldx", "stx"][c.mode as usize % 4]));
                    st.class(match c.o { 0..=0x7fff => "bigpkt:position<32KiB", 0x8000..=0xffff => "bigpkt:position-32-64KiB", _ => "bigpkt:position>=64KiB" });
                    if c.mode % 4 >= 2 {
                        let off = c.o as i64 - c.k as i64;
                        st.class(match off { -32768 => "bigpkt:offset==-32768", 32767 => "bigpkt:offset==32767", x if x < -128 => "bigpkt:offset<-128", x if x > 127 => "bigpkt:offset>127", _ => "bigpkt:offset-small" });
                    }
                    st.nontrivial(crate::engine::fnv_str(&format!("{c:?}")));
                    st.sample(2, || to_json(c));
                }
            }
        }
        (v, if want_case { to_json(c) } else { Value::Null })
    });
}
