//! C15 - disassembly reports every instruction's true fields and never panics.
//! C16 - assembling the disassembler's output reproduces the program.

use super::{catch, panic_signature, PropDef};
use crate::asmref::{self, DOp};
use crate::engine::*;
use crate::isa::{self, *};
use proptest::prelude::*;
use serde_json::{json, Value};

pub fn def() -> PropDef {
    PropDef {
        info: PropInfo {
            id: "C15",
            rule: "streams of 1-40 whole instructions: every supported opcode (and tail_call), all 16 values of both register nibbles, offsets incl. -32768, boundary-heavy and random immediates, lddw pairs with arbitrary halves, call kinds 0/1. Oracle: to_insn_vec under catch_unwind gives one entry per instruction (lddw merged); opc/dst/src/off equal the independent decoder's; imm equals the encoded immediate (lddw: lo | hi<<32); name equals the table mnemonic; desc, parsed by the harness's own parser of the assembler syntax, has a mnemonic that the documented table maps to this opcode and operands that denote the same values in every field the instruction uses (a 32-bit immediate may be printed as its two's-complement pattern). What disassemble() prints (stdout captured) must be exactly those texts, one per line. Long programs of up to 2^17 (+4) slots (2^19 in the thorough tier) with wide loads back to back from slot 0 or slot 1, before every multiple of 2^j, or scattered, go through both; a few programs of 999,998-1,000,003 slots (the verifier's limit is not the disassembler's) with a wide load straddling slot 1,000,000 go through to_insn_vec; about one instruction in four repeats the one before it, half of those with another upper half. Thorough tier additionally enumerates every opcode x all 65536 offsets. Non-trivial = stream containing a negative offset/immediate, a register >= r10 or an lddw; distinct by hash.",
            assumptions: &["byte swaps with a width other than 16/32/64 have no rendering in the assembler syntax: only fields and absence of panic are checked for them", "xadd and tail_call have no assembler spelling: their text only needs to start with the name"],
        },
        run: run15,
        replay: replay15,
        single_worker: false,
    }
}

pub fn def16() -> PropDef {
    PropDef {
        info: PropInfo {
            id: "C16",
            rule: "same instruction-stream generator as C15 (about one instruction in four repeats the one before it, half of those with another upper half), half of the streams forced into the expressible/canonical class, the others with junk in unused fields (including register byte, offset and - in a third of them - a supported opcode byte in the second slot of a wide load) (assembler-expressible opcodes, unused fields zero, 32-bit immediates >= 0, any 64-bit value for lddw, byte-swap widths 16/32/64). The text is join(to_insn_vec().desc, newline) and, in a second stream, the captured stdout of disassemble(); long expressible programs of up to 2^17 (+4) slots (2^18 in the thorough tier) with wide loads at every kind of position go through both. Oracle: class 1 => assemble(text) == Ok(original bytes); other programs => if assemble() accepts the text the result equals the canonical form computed by the harness (same opcodes, same used-field values, unused fields cleared), an Err is fine. Non-trivial = class-1 program of >= 2 instructions, or a class-2 program the assembler accepted; distinct by hash.",
            assumptions: &["canonical form = harness/vrun/src/isa.rs::uses_of table"],
        },
        run: run16,
        replay: replay16,
        single_worker: false,
    }
}

#[derive(Clone, Debug)]
pub struct SInsn {
    opc_sel: u16,
    regs: u8,
    off: i16,
    imm: i32,
    hi: i32,
}

fn sinsn() -> impl Strategy<Value = SInsn> {
    (any::<u16>(), any::<u8>(), super::c17::off_strategy(), super::c17::imm_strategy(), prop_oneof![2 => super::c17::imm_strategy(), 1 => Just(0i32), 1 => any::<i32>()])
        .prop_map(|(opc_sel, regs, off, imm, hi)| SInsn { opc_sel, regs, off, imm, hi })
}

/// About one instruction in eight is a copy of the one before it (identical lines, identical
/// wide loads back to back), another one in eight a copy with its own upper half.
fn with_repeats(max: usize) -> impl Strategy<Value = Vec<SInsn>> {
    (prop::collection::vec(sinsn(), 1..max), prop::collection::vec(0u8..8, max)).prop_map(|(mut s, rep)| {
        for k in 1..s.len() {
            if rep[k] == 0 {
                s[k] = s[k - 1].clone();
            } else if rep[k] == 1 {
                // same first slot, another upper half (only a wide load shows the difference)
                let hi = s[k].hi;
                s[k] = s[k - 1].clone();
                s[k].hi = hi;
            }
        }
        s
    })
}

pub fn stream() -> impl Strategy<Value = (Vec<SInsn>, bool)> {
    (with_repeats(40), any::<bool>())
}

/// Long programs (up to 2^max_log slots and a little more) whose wide loads sit on every kind of
/// position: back to back from slot 0 or from slot 1 (one of the two parities straddles every
/// boundary of any chunk size), first halves on the last slot before each multiple of 2^j, or
/// scattered at random among single-slot instructions. All of them are assembler-expressible and
/// canonical, so that they serve C16 as well.
#[derive(Clone, Debug)]
pub struct LongSpec {
    pub total: usize,
    pub lead: usize,
    pub mode: u8,
    pub j: u8,
    pub seed: u64,
}

pub fn long_spec(max_log: u32) -> impl Strategy<Value = LongSpec> {
    let total = prop_oneof![
        3 => (6u32..=max_log, -3i64..=4).prop_map(|(j, d)| ((1i64 << j) + d) as usize),
        1 => 64usize..(1usize << max_log),
    ];
    (total, 0usize..2, 0u8..3, 3u8..=16, any::<u64>()).prop_map(|(total, lead, mode, j, seed)| LongSpec { total, lead, mode, j, seed })
}

pub fn long_bytes(s: &LongSpec) -> Vec<u8> {
    let mut out: Vec<u8> = Vec::with_capacity(s.total * 8 + 16);
    let mut x = s.seed | 1;
    let mut next = move || {
        x ^= x << 13;
        x ^= x >> 7;
        x ^= x << 17;
        x
    };
    let mut n = 0usize;
    while n < s.total {
        let r = next();
        let lddw = n >= s.lead
            && n + 2 <= s.total
            && match s.mode {
                0 => true,
                1 => (n + 1) % (1usize << s.j) == 0,
                _ => r & 3 == 0,
            };
        if lddw {
            out.extend_from_slice(&Insn::new(LDDW, (r >> 8) as u8 % 10, 0, 0, (r >> 16) as i32).encode());
            out.extend_from_slice(&Insn::new(0, 0, 0, 0, (r >> 40) as i32 ^ n as i32).encode());
            n += 2;
        } else {
            let (d, sr) = ((r >> 8) as u8 % 10, (r >> 12) as u8 % 10);
            let i = match r % 3 {
                0 => Insn::new(alu_opc(true, ALU_MOV, false), d, 0, 0, (r >> 20) as i32 & 0x7fff_ffff),
                1 => Insn::new(alu_opc(r & 64 != 0, ALU_ADD, true), d, sr, 0, 0),
                _ => Insn::new(ldx_opc(8), d, sr, (r >> 20) as i16, 0),
            };
            out.extend_from_slice(&i.encode());
            n += 1;
        }
    }
    out
}

pub fn long_json(s: &LongSpec) -> Value {
    json!({"total": s.total, "lead": s.lead, "mode": s.mode, "j": s.j, "seed": s.seed.to_string()})
}

pub fn long_from_json(v: &Value) -> Option<LongSpec> {
    Some(LongSpec {
        total: v["total"].as_u64()? as usize,
        lead: v["lead"].as_u64()? as usize,
        mode: v["mode"].as_u64()? as u8,
        j: v["j"].as_u64()? as u8,
        seed: v["seed"].as_str()?.parse().ok()?,
    })
}

fn short_hex(b: &[u8]) -> String {
    if b.len() <= 1024 {
        isa::hex(b)
    } else {
        format!("{}... ({} bytes)", isa::hex(&b[..256]), b.len())
    }
}

fn short_text(t: &str) -> String {
    if t.len() <= 2000 {
        format!("{t:?}")
    } else {
        let cut = (0..=600).rev().find(|k| t.is_char_boundary(*k)).unwrap_or(0);
        format!("{:?}... ({} bytes of text)", &t[..cut], t.len())
    }
}

/// What `disassemble()` prints: one line per entry of `to_insn_vec()`, the entry's text.
pub fn printed_text(bytes: &[u8]) -> Result<String, Verdict> {
    let b = bytes.to_vec();
    let (r, out) = super::capture_stdout(move || rbpf::disassembler::disassemble(&b));
    if let Err(m) = r {
        return Err(Verdict::fail(format!("disassemble:{}", panic_signature(&m)), format!("disassemble() panicked: {m}
{}", isa::listing(bytes, 12).join("\n"))));
    }
    Ok(String::from_utf8_lossy(&out).to_string())
}

pub fn check_printed(bytes: &[u8]) -> Verdict {
    let b = bytes.to_vec();
    let hl = match catch(move || rbpf::disassembler::to_insn_vec(&b)) {
        Ok(h) => h,
        Err(m) => return Verdict::fail(panic_signature(&m), format!("to_insn_vec panicked: {m}\n{}", isa::listing(bytes, 12).join("\n"))),
    };
    let text = match printed_text(bytes) {
        Ok(t) => t,
        Err(v) => return v,
    };
    let mut lines = text.lines();
    for (k, h) in hl.iter().enumerate() {
        match lines.next() {
            Some(l) if l == h.desc => {}
            other => return Verdict::fail("disassemble:printed-line-differs", format!("entry {k}: to_insn_vec says {:?}, disassemble() printed {other:?}", h.desc)),
        }
    }
    if let Some(extra) = lines.next() {
        return Verdict::fail("disassemble:extra-line", format!("disassemble() printed an extra line {extra:?} after {} entries", hl.len()));
    }
    Verdict::Pass
}

/// The assembler cannot express xadd and tail_call.
fn expressible(k: Kind) -> bool {
    !matches!(k, Kind::Xadd | Kind::TailCall)
}

pub fn lower(s: &[SInsn], canon: bool) -> Vec<u8> {
    lower_with(s, canon, false)
}

/// `junk_second_opcode`: in non-canonical streams the second slot of a wide load may also carry a
/// (supported) opcode byte - like its register byte and offset, an unused field of the wide load.
/// Only C16 looks at such streams: C15's domain is "wide loads followed by their second half".
pub fn lower_with(s: &[SInsn], canon: bool, junk_second_opcode: bool) -> Vec<u8> {
    let mut ops = supported_opcodes();
    ops.push(TAIL_CALL);
    let mut out = Vec::new();
    for x in s {
        let mut opc = ops[(x.opc_sel as usize * ops.len()) >> 16];
        if x.opc_sel % 23 == 5 {
            opc = LDDW;
        }
        let mut k = kind_of(opc).unwrap();
        if canon && !expressible(k) {
            opc = 0xbf;
            k = Kind::AluReg;
        }
        let mut i = Insn::new(opc, x.regs & 15, x.regs >> 4, x.off, x.imm);
        if k == Kind::Call {
            i.src &= 1;
        }
        if canon {
            i = canonical(i);
            if matches!(k, Kind::AluImm | Kind::St | Kind::JmpImm | Kind::LdAbs | Kind::LdInd | Kind::Call) {
                i.imm = if i.imm == i32::MIN { 0 } else { i.imm.abs() };
            }
            if k == Kind::Endian {
                i.imm = [16, 32, 64][(x.imm as u32 % 3) as usize];
            }
        }
        out.extend_from_slice(&i.encode());
        if k == Kind::Lddw {
            let opc2 = if junk_second_opcode && !canon && (x.off as u16) % 3 == 0 { ops[(x.hi as u32 as usize >> 3) % ops.len()] } else { 0 };
            let second = if canon { Insn::new(0, 0, 0, 0, x.hi) } else { Insn::new(opc2, (x.hi & 15) as u8, ((x.hi >> 4) & 15) as u8, (x.hi >> 8) as i16, x.hi) };
            out.extend_from_slice(&second.encode());
        }
    }
    out
}

fn num_is(n: i128, v: i64, bits32: bool) -> bool {
    n == v as i128 || (bits32 && n == (v as i32 as u32) as i128) || (!bits32 && n == (v as u64) as i128)
}

/// Check one disassembled entry against the reference decoding.
fn check_entry(h: &rbpf::disassembler::HLInsn, want: &Insn, imm64: i64, idx: usize) -> Result<(), (String, String)> {
    let k = kind_of(want.opc).unwrap();
    if (h.opc, h.dst, h.src, h.off) != (want.opc, want.dst, want.src, want.off) {
        return Err(("fields-mismatch".into(), format!("entry {idx}: got opc={:#x} dst={} src={} off={}, encoded {want:?}", h.opc, h.dst, h.src, h.off)));
    }
    if h.imm != imm64 {
        return Err(("imm-mismatch".into(), format!("entry {idx}: imm {:#x} but encoded immediate is {imm64:#x} ({want:?})", h.imm)));
    }
    let name = disasm_name(want).unwrap();
    let name_ok = h.name == name || (k == Kind::Endian && h.name == format!("{name}{}", want.imm));
    if !name_ok {
        return Err(("name-mismatch".into(), format!("entry {idx}: name {:?}, mnemonic of opcode {:#x} is {name:?}", h.name, want.opc)));
    }
    // text
    if !h.desc.starts_with(h.name.as_str()) {
        return Err(("desc-mismatch".into(), format!("entry {idx}: text {:?} does not start with the name {:?}", h.desc, h.name)));
    }
    if matches!(k, Kind::Xadd | Kind::TailCall) {
        return Ok(());
    }
    if k == Kind::Endian && !matches!(want.imm, 16 | 32 | 64) {
        // a byte swap of a width the assembler cannot express: how it is spelled is not
        // prescribed, but the text must not denote a valid byte swap (a different instruction)
        if let Some((mn, _)) = asmref::parse_desc(&h.desc) {
            if asmref::mnemonic_map().contains_key(&mn) {
                return Err(("desc-mismatch".into(), format!("entry {idx}: text {:?} for a byte swap with immediate {} denotes the valid instruction {mn:?}", h.desc, want.imm)));
            }
        }
        return Ok(());
    }
    let bad = |why: &str| Err(("desc-mismatch".to_string(), format!("entry {idx}: text {:?} for {want:?} (imm {imm64:#x}): {why}", h.desc)));
    let (mn, ops) = match asmref::parse_desc(&h.desc) {
        Some(x) => x,
        None => return bad("not in the assembler's syntax"),
    };
    // the mnemonic must denote this opcode in the documented table
    let map = asmref::mnemonic_map();
    let Some((shape, base)) = map.get(&mn).copied() else { return bad("unknown mnemonic") };
    let reg_form = matches!(k, Kind::AluReg | Kind::JmpReg);
    let opc_denoted = if reg_form { base | 0x08 } else { base };
    if opc_denoted != want.opc {
        return bad("mnemonic denotes another opcode");
    }
    if let Shape::Endian(w) = shape {
        if w != want.imm {
            return bad("byte-swap width differs");
        }
    }
    if shape == Shape::Callx && want.src != 1 || shape == Shape::Call && want.src != 0 {
        return bad("call kind differs");
    }
    let (d, s, o, i) = (want.dst, want.src, want.off as i64, want.imm as i64);
    let ok = match (k, ops.as_slice()) {
        (Kind::AluImm, [DOp::Reg(a), DOp::Num(n)]) => *a == d && num_is(*n, i, true),
        (Kind::AluReg, [DOp::Reg(a), DOp::Reg(b)]) => *a == d && *b == s,
        (Kind::Neg, [DOp::Reg(a)]) | (Kind::Endian, [DOp::Reg(a)]) => *a == d,
        (Kind::LdAbs, [DOp::Num(n)]) => num_is(*n, i, true),
        (Kind::LdInd, [DOp::Reg(b), DOp::Num(n)]) => *b == s && num_is(*n, i, true),
        (Kind::Lddw, [DOp::Reg(a), DOp::Num(n)]) => *a == d && num_is(*n, imm64, false),
        (Kind::Ldx, [DOp::Reg(a), DOp::Mem(b, off)]) => *a == d && *b == s && *off == o as i128,
        (Kind::St, [DOp::Mem(a, off), DOp::Num(n)]) => *a == d && *off == o as i128 && num_is(*n, i, true),
        (Kind::Stx, [DOp::Mem(a, off), DOp::Reg(b)]) => *a == d && *off == o as i128 && *b == s,
        (Kind::Ja, [DOp::Num(n)]) => *n == o as i128,
        (Kind::JmpImm, [DOp::Reg(a), DOp::Num(n), DOp::Num(off)]) => *a == d && num_is(*n, i, true) && *off == o as i128,
        (Kind::JmpReg, [DOp::Reg(a), DOp::Reg(b), DOp::Num(off)]) => *a == d && *b == s && *off == o as i128,
        (Kind::Call, [DOp::Num(n)]) => num_is(*n, i, true),
        (Kind::Exit, []) => true,
        _ => false,
    };
    if ok {
        Ok(())
    } else {
        bad("operands denote other values")
    }
}

/// Reference walk over a stream: (first-slot insn, merged immediate).
fn ref_entries(bytes: &[u8]) -> Vec<(Insn, i64)> {
    let insns = decode_prog(bytes);
    let mut v = Vec::new();
    let mut i = 0;
    while i < insns.len() {
        let x = insns[i];
        if x.opc == LDDW && i + 1 < insns.len() {
            let hi = insns[i + 1].imm;
            v.push((x, ((x.imm as u32 as u64) | ((hi as u32 as u64) << 32)) as i64));
            i += 2;
        } else {
            v.push((x, x.imm as i64));
            i += 1;
        }
    }
    v
}

pub fn check_disasm(bytes: &[u8]) -> Verdict {
    let b = bytes.to_vec();
    let hl = match catch(move || rbpf::disassembler::to_insn_vec(&b)) {
        Ok(h) => h,
        Err(m) => return Verdict::fail(panic_signature(&m), format!("to_insn_vec panicked: {m}\n{}", isa::listing(bytes, 12).join("\n"))),
    };
    let want = ref_entries(bytes);
    if hl.len() != want.len() {
        return Verdict::fail("entry-count", format!("{} entries for {} instructions\n{}", hl.len(), want.len(), isa::listing(bytes, 12).join("\n")));
    }
    for (idx, (h, (w, imm64))) in hl.iter().zip(want.iter()).enumerate() {
        if let Err((sig, detail)) = check_entry(h, w, *imm64, idx) {
            return Verdict::fail(sig, detail);
        }
    }
    Verdict::Pass
}

fn nontrivial15(bytes: &[u8]) -> bool {
    decode_prog(bytes).iter().any(|x| x.off < 0 || x.imm < 0 || x.dst >= 10 || x.src >= 10 || x.opc == LDDW)
}

fn run15(ctx: &Ctx) {
    ctx.shrink_iters.set(30_000);
    if ctx.tier == Tier::Thorough {
        // every opcode x every offset
        let mut ops = supported_opcodes();
        ops.push(TAIL_CALL);
        let mut count = 0u64;
        'outer: for (j, opc) in ops.iter().enumerate() {
            if j % ctx.nworkers != ctx.worker {
                continue;
            }
            for off in i16::MIN..=i16::MAX {
                let mut b = Insn::new(*opc, 11, if *opc == CALL { 1 } else { 12 }, off, -2).encode().to_vec();
                if *opc == LDDW {
                    b.extend_from_slice(&Insn::new(0, 0, 0, 0, -3).encode());
                }
                count += 1;
                let v = check_disasm(&b);
                if v.is_fail() {
                    ctx.enumerate_case(v, "bytes", || json!({"bytes": isa::hex(&b)}));
                    break 'outer;
                }
            }
        }
        let mut st = ctx.stats();
        st.evaluations += count;
        st.distinct_by_construction += count;
        st.class_n("enum:opcode-x-offset", count);
    }
    let cases = ctx.share(ctx.tier.pick(400_000, 12_000_000));
    ctx.search("streams", "bytes", cases, stream(), |(s, canon), want_case| {
        let bytes = lower(s, *canon);
        let v = check_disasm(&bytes);
        if !want_case {
            let mut st = ctx.stats();
            st.eval();
            for x in decode_prog(&bytes) {
                if let Some(k) = kind_of(x.opc) {
                    st.class(&format!("kind:{k:?}"));
                }
                if x.off == i16::MIN {
                    st.class("off=-32768");
                }
            }
            if nontrivial15(&bytes) {
                st.nontrivial(fnv(&bytes));
            }
            st.sample(3, || json!({"bytes": isa::hex(&bytes), "listing": isa::listing(&bytes, 8)}));
        }
        (v, if want_case { json!({"bytes": isa::hex(&bytes), "listing": isa::listing(&bytes, 40)}) } else { Value::Null })
    });
    // what disassemble() prints is the text of those entries
    let cases = ctx.share(ctx.tier.pick(40_000, 1_200_000));
    ctx.search("printed", "bytes", cases, stream(), |(s, canon), want_case| {
        let bytes = lower(s, *canon);
        let v = check_printed(&bytes);
        if !want_case {
            let mut st = ctx.stats();
            st.eval();
            st.class("printed-by-disassemble()");
            if nontrivial15(&bytes) {
                st.nontrivial(fnv(&bytes) ^ 1);
            }
        }
        (v, if want_case { json!({"bytes": isa::hex(&bytes), "listing": isa::listing(&bytes, 40)}) } else { Value::Null })
    });
    // long programs: "programs of any length"
    ctx.shrink_iters.set(200);
    let cases = ctx.share(ctx.tier.pick(320, 4_000));
    ctx.search("long", "long", cases, long_spec(ctx.tier.pick(17, 19) as u32), |spec, want_case| {
        let v = check15_long(spec);
        if !want_case {
            let mut st = ctx.stats();
            st.eval();
            st.class(match spec.total {
                0..=1000 => "long:<=1000-slots",
                1001..=8192 => "long:1001-8192-slots",
                8193..=65536 => "long:8193-65536-slots",
                _ => "long:>65536-slots",
            });
            st.class(match spec.mode { 0 => "long:back-to-back-lddw", 1 => "long:lddw-before-each-2^j", _ => "long:scattered-lddw" });
            st.nontrivial(fnv_str(&format!("{spec:?}")));
            st.sample(2, || long_json(spec));
        }
        (v, if want_case { long_json(spec) } else { Value::Null })
    });
    // a few programs around 1,000,000 slots (one or two per worker)
    ctx.shrink_iters.set(8);
    let cases = ctx.share(ctx.tier.pick(16, 96));
    ctx.search("huge", "long", cases, huge_spec(), |spec, want_case| {
        let v = check_disasm(&long_bytes(spec));
        if !want_case {
            let mut st = ctx.stats();
            st.eval();
            st.class(if spec.total > 1_000_000 { "long:>1,000,000-slots" } else { "long:999,998-1,000,000-slots" });
            st.nontrivial(fnv_str(&format!("{spec:?}")));
        }
        (v, if want_case { long_json(spec) } else { Value::Null })
    });
}

/// Programs just below / at / just above 1,000,000 slots - the verifier's limit, which is not a
/// limit of the disassembler ("every byte string made of whole instructions") - with wide loads
/// on both parities, so that one straddles slot 1,000,000.
fn huge_spec() -> impl Strategy<Value = LongSpec> {
    (-2i64..=3, 0usize..2, prop_oneof![Just(0u8), Just(2u8)], any::<u64>()).prop_map(|(d, lead, mode, seed)| LongSpec { total: (1_000_000 + d) as usize, lead, mode, j: 10, seed })
}

fn check15_long(spec: &LongSpec) -> Verdict {
    let bytes = long_bytes(spec);
    let v = check_disasm(&bytes);
    if !matches!(v, Verdict::Pass) {
        return v;
    }
    check_printed(&bytes)
}

fn replay15(_ctx: &Ctx, kind: &str, case: &Value) -> Verdict {
    if kind == "long" {
        return match long_from_json(case) {
            Some(s) => check15_long(&s),
            None => Verdict::Discard("bad-replay"),
        };
    }
    let bytes = isa::unhex(case["bytes"].as_str().unwrap_or(""));
    let v = check_disasm(&bytes);
    if !matches!(v, Verdict::Pass) {
        return v;
    }
    check_printed(&bytes)
}

// ---- C16 -----------------------------------------------------------------------------------

fn is_class1(bytes: &[u8]) -> bool {
    let insns = decode_prog(bytes);
    let mut i = 0;
    while i < insns.len() {
        let x = insns[i];
        let Some(k) = kind_of(x.opc) else { return false };
        if !expressible(k) || canonical(x) != x {
            return false;
        }
        match k {
            Kind::Lddw => {
                if i + 1 >= insns.len() {
                    return false;
                }
                let y = insns[i + 1];
                if (y.opc, y.dst, y.src, y.off) != (0, 0, 0, 0) {
                    return false;
                }
                i += 1;
            }
            Kind::Endian => {
                if !matches!(x.imm, 16 | 32 | 64) {
                    return false;
                }
            }
            Kind::Call => {
                if x.src > 1 || x.imm < 0 {
                    return false;
                }
            }
            Kind::AluImm | Kind::St | Kind::JmpImm | Kind::LdAbs | Kind::LdInd => {
                if x.imm < 0 {
                    return false;
                }
            }
            _ => {}
        }
        i += 1;
    }
    true
}

fn canonical_bytes(bytes: &[u8]) -> Vec<u8> {
    let insns = decode_prog(bytes);
    let mut out = Vec::new();
    let mut i = 0;
    while i < insns.len() {
        let x = insns[i];
        out.extend_from_slice(&canonical(x).encode());
        if x.opc == LDDW && i + 1 < insns.len() {
            out.extend_from_slice(&Insn::new(0, 0, 0, 0, insns[i + 1].imm).encode());
            i += 1;
        }
        i += 1;
    }
    out
}

/// (verdict, class1?, accepted?)
pub fn check_roundtrip(bytes: &[u8]) -> (Verdict, bool, bool) {
    check_roundtrip_via(bytes, false)
}

/// `printed`: take the text from what disassemble() prints instead of joining to_insn_vec().desc
pub fn check_roundtrip_via(bytes: &[u8], printed: bool) -> (Verdict, bool, bool) {
    let class1 = is_class1(bytes);
    let text: String = if printed {
        match printed_text(bytes) {
            Ok(t) => t,
            Err(v) => return (v, class1, false),
        }
    } else {
        let b = bytes.to_vec();
        let hl = match catch(move || rbpf::disassembler::to_insn_vec(&b)) {
            Ok(h) => h,
            Err(m) => return (Verdict::fail(panic_signature(&m), format!("to_insn_vec panicked: {m}")), class1, false),
        };
        hl.iter().map(|h| h.desc.clone()).collect::<Vec<_>>().join("\n")
    };
    let t = text.clone();
    let res = match catch(move || rbpf::assembler::assemble(&t)) {
        Ok(r) => r,
        Err(m) => return (Verdict::fail(panic_signature(&m), format!("assemble panicked on {}: {m}", short_text(&text))), class1, false),
    };
    match res {
        Ok(q) => {
            let want = if class1 { bytes.to_vec() } else { canonical_bytes(bytes) };
            if q == want {
                (Verdict::Pass, class1, true)
            } else {
                (
                    Verdict::fail(
                        if class1 { "roundtrip-differs" } else { "not-canonical-form" },
                        format!("program {}\n text {}\n reassembled {}\n expected    {}", short_hex(bytes), short_text(&text), short_hex(&q), short_hex(&want)),
                    ),
                    class1,
                    true,
                )
            }
        }
        Err(e) => {
            if class1 {
                (Verdict::fail("roundtrip-rejected", format!("program {} (expressible, canonical)\n text {}\n rejected: {e}", short_hex(bytes), short_text(&text))), class1, false)
            } else {
                (Verdict::Pass, class1, false)
            }
        }
    }
}

fn run16(ctx: &Ctx) {
    ctx.shrink_iters.set(30_000);
    let cases = ctx.share(ctx.tier.pick(400_000, 12_000_000));
    ctx.search("streams", "bytes", cases, stream(), |(s, canon), want_case| {
        let bytes = lower_with(s, *canon, true);
        let (v, class1, accepted) = check_roundtrip(&bytes);
        if !want_case {
            let mut st = ctx.stats();
            st.eval();
            st.class(match (class1, accepted) {
                (true, _) => "class1:expressible-canonical",
                (false, true) => "class2:accepted",
                (false, false) => "class2:rejected",
            });
            if (class1 && bytes.len() >= 16) || (!class1 && accepted) {
                st.nontrivial(fnv(&bytes));
            }
            st.sample(3, || json!({"bytes": isa::hex(&bytes), "listing": isa::listing(&bytes, 8), "class1": class1}));
        }
        (v, if want_case { json!({"bytes": isa::hex(&bytes), "listing": isa::listing(&bytes, 40)}) } else { Value::Null })
    });
    // short class-2 programs are accepted far more often than long ones: dedicated stream
    let cases = ctx.share(ctx.tier.pick(200_000, 6_000_000));
    ctx.search("short", "bytes", cases, with_repeats(3), |s, want_case| {
        let bytes = lower_with(s, false, true);
        let (v, class1, accepted) = check_roundtrip(&bytes);
        if !want_case {
            let mut st = ctx.stats();
            st.eval();
            st.class(match (class1, accepted) {
                (true, _) => "short:class1",
                (false, true) => "short:class2-accepted",
                (false, false) => "short:class2-rejected",
            });
            if (class1 && bytes.len() >= 16) || (!class1 && accepted) {
                st.nontrivial(fnv(&bytes));
            }
        }
        (v, if want_case { json!({"bytes": isa::hex(&bytes), "listing": isa::listing(&bytes, 40)}) } else { Value::Null })
    });
    // the printed text (stdout of disassemble()) round-trips as well
    let cases = ctx.share(ctx.tier.pick(40_000, 1_200_000));
    ctx.search("printed", "bytes", cases, stream(), |(s, canon), want_case| {
        let bytes = lower_with(s, *canon, true);
        let (v, class1, accepted) = check_roundtrip_via(&bytes, true);
        if !want_case {
            let mut st = ctx.stats();
            st.eval();
            st.class("text-printed-by-disassemble()");
            if (class1 && bytes.len() >= 16) || (!class1 && accepted) {
                st.nontrivial(fnv(&bytes) ^ 1);
            }
        }
        (v, if want_case { json!({"bytes": isa::hex(&bytes), "listing": isa::listing(&bytes, 40)}) } else { Value::Null })
    });
    // long expressible programs: "of any length"
    ctx.shrink_iters.set(100);
    let cases = ctx.share(ctx.tier.pick(320, 4_800));
    ctx.search("long", "long", cases, long_spec(ctx.tier.pick(17, 18) as u32), |spec, want_case| {
        let v = check16_long(spec);
        if !want_case {
            let mut st = ctx.stats();
            st.eval();
            st.class(match spec.total {
                0..=1000 => "long:<=1000-slots",
                1001..=8192 => "long:1001-8192-slots",
                _ => "long:>8192-slots",
            });
            st.class(match spec.mode { 0 => "long:back-to-back-lddw", 1 => "long:lddw-before-each-2^j", _ => "long:scattered-lddw" });
            st.nontrivial(fnv_str(&format!("{spec:?}")));
            st.sample(2, || long_json(spec));
        }
        (v, if want_case { long_json(spec) } else { Value::Null })
    });
}

fn check16_long(spec: &LongSpec) -> Verdict {
    let bytes = long_bytes(spec);
    let v = check_roundtrip_via(&bytes, true).0;
    if !matches!(v, Verdict::Pass) {
        return v;
    }
    check_roundtrip_via(&bytes, false).0
}

fn replay16(_ctx: &Ctx, kind: &str, case: &Value) -> Verdict {
    if kind == "long" {
        return match long_from_json(case) {
            Some(s) => check16_long(&s),
            None => Verdict::Discard("bad-replay"),
        };
    }
    let bytes = isa::unhex(case["bytes"].as_str().unwrap_or(""));
    let v = check_roundtrip_via(&bytes, false).0;
    if !matches!(v, Verdict::Pass) {
        return v;
    }
    check_roundtrip_via(&bytes, true).0
}
