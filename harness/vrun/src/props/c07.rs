//! C07 - eBPF-to-eBPF calls preserve the caller's frame and callee-saved registers.

use super::PropDef;
use crate::engine::*;
use crate::execcheck::*;
use crate::gen::interesting_u64;
use crate::isa::{self, *};
use crate::model::{MErr, MOut, Quirks};
use crate::runner::*;
use proptest::prelude::*;
use serde_json::{json, Value};
use std::cell::RefCell;

pub fn def() -> PropDef {
    PropDef {
        info: PropInfo {
            id: "C07",
            rule: "call-graph programs on each of the four VM kinds: 1-6 functions laid out in a generated order after main (forward, backward and zero displacements (`callx +0`, whose callee is the code following the call), optional padding up to 33k instructions between them); every function folds (its r10 - caller's r10) and the incoming r1-r4 into the accumulator r0, loads distinctive values into r6-r9, spills r10, writes stack slots at generated offsets of its own frame, optionally calls a helper with a small id (so that pc+1+id is a later executed instruction), optionally calls another function (any function, itself included) while a counter argument is non-zero (nesting depth 0-10), optionally ends with such a call in tail position (call immediately followed by exit; half of them self-recursive), and after the return folds r6-r9, r1-r4, its reloaded stack slots and (r10 - spilled r10). Configurations: no calculator, or a stack-usage calculator driven by a generated table entry-pc -> u16 from {0,8,16,24,56,64,256,504,512,65535,random} with a distinctive default for non-entry pcs. Oracle: the reference model's C07 semantics vs the interpreter (value, or Err for depth > 8 / stack accesses outside the 512 bytes) and vs the x86-64 JIT whenever the model returns a value. Non-trivial = at least one executed local call whose callee writes the stack or r6-r9 (always true when a call executes); distinct by hash.",
            assumptions: &["the JIT has no run-time error channel: the 'yields an error' clauses are checked on the interpreter only (DESIGN 6.6)", "stack addresses within 1 MiB of the eBPF stack belong to no other region of the VM - except on the fixed-metadata VM, whose internal buffer is a heap neighbour of the stack: there, runs that leave the stack are not judged"],
        },
        run,
        replay,
        single_worker: false,
    }
}

#[derive(Clone, Debug)]
pub struct CFunc {
    vals: [u64; 4],
    slots: Vec<u8>,
    call: Option<u8>,
    second_call: Option<u8>,
    helper: Option<u8>,
    pad: u16,
    frame: u16,
    /// also perform `callx +0` (the callee is the code that follows the call itself)
    call_next: bool,
    /// a last conditional call that is immediately followed by `exit` (tail position); even
    /// selector = the function itself
    tail_call: Option<u8>,
}

#[derive(Clone, Debug)]
pub struct CProg {
    /// VM kind selector: no-data, raw, metadata, fixed-metadata (the four VM structs duplicate
    /// their entry paths; main overwrites r1-r5, so the program is the same on all of them)
    vm: u8,
    funcs: Vec<CFunc>,
    rot: u8,
    counter: u8,
    args: [u64; 3],
    calc: Option<u16>,
    big_pad: Option<(u8, u16)>,
}

const SLOT_OFFS: [i16; 16] = [-8, -16, -32, -40, -56, -64, -8, -16, -32, -48, -72, -80, -128, -256, -504, -512];

fn cfunc() -> impl Strategy<Value = CFunc> {
    (
        [interesting_u64(), interesting_u64(), interesting_u64(), interesting_u64()],
        prop::collection::vec(0u8..16, 0..3),
        prop_oneof![1 => Just(None), 4 => any::<u8>().prop_map(Some)],
        prop_oneof![4 => Just(None), 1 => any::<u8>().prop_map(Some)],
        prop_oneof![3 => Just(None), 1 => (1u8..20).prop_map(Some)],
        prop_oneof![4 => Just(0u16), 1 => 1u16..6],
        prop_oneof![6 => prop::sample::select(vec![0u16, 8, 16, 24, 32, 40, 48, 56, 64]), 1 => prop::sample::select(vec![256u16, 504, 512, 65535, 513, 255]), 1 => any::<u16>(), 2 => (1u16..12).prop_map(|k| k * 8)],
        prop::bool::weighted(0.12),
        prop_oneof![4 => Just(None), 1 => any::<u8>().prop_map(Some)],
    )
        .prop_map(|(vals, slots, call, second_call, helper, pad, frame, call_next, tail_call)| CFunc { vals, slots, call, second_call, helper, pad, frame, call_next, tail_call })
}

pub fn cprog() -> impl Strategy<Value = CProg> {
    (
        0u8..4,
        prop::collection::vec(cfunc(), 1..7),
        any::<u8>(),
        prop_oneof![2 => 0u8..4, 2 => 4u8..9, 1 => 9u8..11],
        [interesting_u64(), interesting_u64(), interesting_u64()],
        prop_oneof![1 => Just(None), 3 => prop::sample::select(vec![0u16, 8, 40, 256, 1000, 65535]).prop_map(Some)],
        prop_oneof![12 => Just(None), 1 => (any::<u8>(), 32_700u16..33_200).prop_map(Some)],
    )
        .prop_map(|(vm, funcs, rot, counter, args, calc, big_pad)| CProg { vm, funcs, rot, counter, args, calc, big_pad })
}

fn lddw(out: &mut Vec<Insn>, dst: u8, v: u64) {
    out.push(Insn::new(LDDW, dst, 0, 0, v as u32 as i32));
    out.push(Insn::new(0, 0, 0, 0, (v >> 32) as u32 as i32));
}

fn fold(out: &mut Vec<Insn>, reg: u8, k: i32) {
    out.push(Insn::new(alu_opc(true, ALU_MUL, false), 0, 0, 0, k));
    out.push(Insn::new(alu_opc(true, ALU_ADD, true), 0, reg, 0, 0));
}

pub fn lower(p: &CProg) -> ExecCase {
    let n = p.funcs.len();
    // layout order: main first, then a rotation of the others
    let mut order: Vec<usize> = (1..n).collect();
    if !order.is_empty() {
        let r = p.rot as usize % order.len();
        order.rotate_left(r);
        if p.rot & 0x80 != 0 {
            order.reverse();
        }
    }
    order.insert(0, 0);
    let mut out: Vec<Insn> = Vec::new();
    let mut entry = vec![0usize; n];
    let mut fixups: Vec<(usize, usize)> = Vec::new();
    let mut extra_entries: Vec<(usize, usize)> = Vec::new();
    for (pos, &fi) in order.iter().enumerate() {
        let f = &p.funcs[fi];
        if fi != 0 {
            for k in 0..f.pad {
                out.push(Insn::new(alu_opc(true, ALU_MOV, true), 9, 9, 0, k as i32));
            }
            if let Some((which, npad)) = p.big_pad {
                if which as usize % n == pos {
                    for _ in 0..npad {
                        out.push(Insn::new(JA, 0, 0, 0, 0));
                    }
                }
            }
        }
        entry[fi] = out.len();
        if fi == 0 {
            // main: accumulator, counter and arguments; r5 = r10 so that the frame fold gives 0
            out.push(Insn::new(alu_opc(true, ALU_MOV, false), 0, 0, 0, 1));
            out.push(Insn::new(alu_opc(true, ALU_MOV, false), 1, 0, 0, p.counter as i32));
            for (k, a) in p.args.iter().enumerate() {
                lddw(&mut out, 2 + k as u8, *a);
            }
            out.push(Insn::new(alu_opc(true, ALU_MOV, true), 5, 10, 0, 0));
        }
        // frame relation: r0 = r0*33 + (r10 - caller's r10)
        out.push(Insn::new(alu_opc(true, ALU_MOV, true), 6, 10, 0, 0));
        out.push(Insn::new(alu_opc(true, ALU_SUB, true), 6, 5, 0, 0));
        fold(&mut out, 6, 33);
        // incoming arguments
        for a in 1..=4u8 {
            fold(&mut out, a, 35 + 2 * a as i32);
        }
        // own callee-saved values, spill of r10, stack slots
        for (k, v) in f.vals.iter().enumerate() {
            lddw(&mut out, 6 + k as u8, *v);
        }
        out.push(Insn::new(stx_opc(8), 10, 10, -24, 0));
        for (k, s) in f.slots.iter().enumerate() {
            let off = SLOT_OFFS[*s as usize % SLOT_OFFS.len()];
            if k % 2 == 0 {
                out.push(Insn::new(st_opc(8), 10, 0, off, 0x1000 * (fi as i32 + 1) + k as i32));
            } else {
                out.push(Insn::new(stx_opc(8), 10, 6 + (k as u8 % 4), off, 0));
            }
        }
        if f.call_next {
            // if (r1 != 0) { r1 -= 1; r5 = r10; callx +0 }: the rest of this function runs once as
            // the callee (one level deeper) and, after its exit, once more as the continuation
            out.push(Insn::new(jmp_opc(true, J_EQ, false), 1, 0, 3, 0));
            out.push(Insn::new(alu_opc(true, ALU_ADD, false), 1, 0, 0, -1));
            out.push(Insn::new(alu_opc(true, ALU_MOV, true), 5, 10, 0, 0));
            out.push(Insn::new(CALL, 0, 1, 0, 0));
            // The code from here on is both the callee's body and the caller's continuation. Which
            // function it "belongs to" is not something the property decides, so the calculator
            // gives this entry the same frame size as the enclosing function: every reading agrees.
            extra_entries.push((out.len(), fi));
            // entry of the "function" that starts here: fold its frame relation like any other
            out.push(Insn::new(alu_opc(true, ALU_MOV, true), 4, 10, 0, 0));
            out.push(Insn::new(alu_opc(true, ALU_SUB, true), 4, 5, 0, 0));
            fold(&mut out, 4, 501);
            out.push(Insn::new(alu_opc(true, ALU_MOV, false), 4, 0, 0, 44));
            out.push(Insn::new(alu_opc(true, ALU_MOV, true), 5, 10, 0, 0));
        }
        for (ci, call) in [f.call, f.second_call].iter().enumerate() {
            let Some(sel) = call else { continue };
            // target: mostly another non-main function, sometimes self or main
            let target = if n == 1 {
                0
            } else if *sel % 16 == 15 {
                0
            } else {
                1 + (*sel as usize % (n - 1))
            };
            // if (r1 != 0) { r1 -= 1; r5 = r10; call target; folds }
            let jeq_at = out.len();
            out.push(Insn::new(jmp_opc(true, J_EQ, false), 1, 0, 0, 0));
            out.push(Insn::new(alu_opc(true, ALU_ADD, false), 1, 0, 0, -1));
            out.push(Insn::new(alu_opc(true, ALU_MOV, true), 5, 10, 0, 0));
            fixups.push((out.len(), target));
            out.push(Insn::new(CALL, 0, 1, 0, 0));
            // after the return
            for r in 6..=9u8 {
                fold(&mut out, r, 101 + 2 * r as i32);
            }
            for a in 1..=4u8 {
                fold(&mut out, a, 201 + 2 * a as i32 + ci as i32);
            }
            for s in f.slots.iter() {
                let off = SLOT_OFFS[*s as usize % SLOT_OFFS.len()];
                out.push(Insn::new(ldx_opc(8), 5, 10, off, 0));
                fold(&mut out, 5, 301);
            }
            out.push(Insn::new(ldx_opc(8), 5, 10, -24, 0));
            out.push(Insn::new(alu_opc(true, ALU_MOV, true), 4, 10, 0, 0));
            out.push(Insn::new(alu_opc(true, ALU_SUB, true), 4, 5, 0, 0));
            fold(&mut out, 4, 401);
            // r4 was consumed: give it a defined value again; r5 is re-set before any call
            out.push(Insn::new(alu_opc(true, ALU_MOV, false), 4, 0, 0, 4 + ci as i32));
            out.push(Insn::new(alu_opc(true, ALU_MOV, true), 5, 10, 0, 0));
            let skip = out.len() - jeq_at - 1;
            out[jeq_at].off = skip as i16;
        }
        if let Some(id) = f.helper {
            // r0 = helper(r0, r2, r3, r4, counter) ; then restore r1-r5
            out.push(Insn::new(alu_opc(true, ALU_MOV, true), 9, 1, 0, 0));
            out.push(Insn::new(alu_opc(true, ALU_MOV, true), 5, 1, 0, 0));
            out.push(Insn::new(alu_opc(true, ALU_MOV, true), 1, 0, 0, 0));
            out.push(Insn::new(CALL, 0, 0, 0, id as i32));
            out.push(Insn::new(alu_opc(true, ALU_MOV, true), 1, 9, 0, 0));
            for a in 2..=4u8 {
                out.push(Insn::new(alu_opc(true, ALU_MOV, false), a, 0, 0, 50 + a as i32 + fi as i32));
            }
            out.push(Insn::new(alu_opc(true, ALU_MOV, true), 5, 10, 0, 0));
        }
        if let Some(sel) = f.tail_call {
            // if (r1 != 0) { r1 -= 1; r5 = r10; call target; exit }  - nothing runs between the
            // callee's return and this function's own exit
            let target = if sel % 2 == 0 || n == 1 { fi } else { 1 + (sel as usize / 2) % (n - 1) };
            out.push(Insn::new(jmp_opc(true, J_EQ, false), 1, 0, 4, 0));
            out.push(Insn::new(alu_opc(true, ALU_ADD, false), 1, 0, 0, -1));
            out.push(Insn::new(alu_opc(true, ALU_MOV, true), 5, 10, 0, 0));
            fixups.push((out.len(), target));
            out.push(Insn::new(CALL, 0, 1, 0, 0));
            out.push(Insn::new(EXIT, 0, 0, 0, 0));
        }
        out.push(Insn::new(EXIT, 0, 0, 0, 0));
    }
    for (at, target) in fixups {
        out[at].imm = (entry[target] as i64 - at as i64 - 1) as i32;
    }
    let vm = match p.vm % 4 {
        0 => VmKind::NoData,
        1 => VmKind::Raw,
        2 => VmKind::Mbuff { data_off: 8, end_off: 16 },
        _ => VmKind::Fixed { data_off: 0x40, end_off: 0x50 },
    };
    let mut case = ExecCase::new(vm, encode_prog(&out));
    if p.vm % 4 != 0 {
        case.pkt = (0..16u8).collect();
    }
    if p.vm % 4 == 2 {
        case.mbuff = vec![0; 32];
    }
    // every small helper id that occurs is registered (three different helpers)
    for f in &p.funcs {
        if let Some(id) = f.helper {
            case.helpers.push((id as u32, [0u8, 1, 6][id as usize % 3]));
        }
    }
    case.helpers.sort();
    case.helpers.dedup_by_key(|h| h.0);
    if let Some(default) = p.calc {
        let mut table: Vec<(usize, u16)> = (0..n).map(|fi| (entry[fi], p.funcs[fi].frame)).collect();
        table.extend(extra_entries.iter().map(|(pc, fi)| (*pc, p.funcs[*fi].frame)));
        case.calc = Some((table, default));
    }
    case
}

pub fn check(runner: &mut Runner, case: &mut ExecCase, st: Option<&mut Stats>) -> Verdict {
    // the metadata VM's buffer holds the packet's real address: the model must know it
    let m = model_run(case, runner.pkt_addr(case), Quirks::default(), 200_000);
    // the fixed-metadata VM owns a heap buffer that is a legitimate region for the program; an
    // access below the stack may land in it (the allocator often places the two side by side), so
    // "outside the 512 bytes => error" cannot be demanded there
    if matches!(case.vm, VmKind::Fixed { .. }) && matches!(m.out, MOut::Err(MErr::OutOfBounds)) {
        if let Some(st) = st {
            st.eval();
            *st.discarded.entry("fixed-vm:stack-overrun-may-hit-the-internal-buffer".into()).or_insert(0) += 1;
            return Verdict::Pass;
        }
        return Verdict::Discard("fixed-vm-stack-overrun");
    }
    if let Some(st) = st {
        st.eval();
        match &m.out {
            MOut::Ret(_) => st.class("model:returns"),
            MOut::Err(MErr::Depth) => st.class("model:err-depth>8"),
            MOut::Err(MErr::OutOfBounds) => st.class("model:err-stack-out-of-bounds"),
            other => {
                *st.discarded.entry(format!("model:{other:?}")).or_insert(0) += 1;
                return Verdict::Pass;
            }
        }
        st.class(&format!("max-depth:{}", m.trace.max_depth));
        st.class(&format!("vm:{}", case.vm.name()));
        st.class(if case.calc.is_some() { "calculator" } else { "no-calculator" });
        if m.trace.helper_calls > 0 {
            st.class("helper-call-in-function");
        }
        let prog = isa::decode_prog(&case.prog);
        if prog.iter().any(|x| x.opc == CALL && x.src == 1 && x.imm < 0) {
            st.class("has-backward-call");
        }
        if prog.windows(2).any(|w| w[0].opc == CALL && w[0].src == 1 && w[1].opc == EXIT) {
            st.class("has-call-in-tail-position");
            if prog.iter().enumerate().any(|(pc, x)| x.opc == CALL && x.src == 1 && x.imm < 0 && prog.get(pc + 1).map(|y| y.opc == EXIT).unwrap_or(false)) {
                st.class("has-backward-call-in-tail-position");
            }
        }
        if prog.len() > 32_000 {
            st.class("long-displacement");
        }
        if m.trace.local_calls > 0 {
            st.nontrivial(case.hash());
        }
        st.sample(3, || json!({"calc": format!("{:?}", case.calc), "model": format!("{:?}", m.out), "local_calls": m.trace.local_calls, "listing": isa::listing(&case.prog, 70)}));
    } else if !matches!(m.out, MOut::Ret(_) | MOut::Err(_)) {
        return Verdict::Discard("model-undefined");
    }
    case.budget = 100 * m.trace.steps + 10_000;
    let with_jit = matches!(m.out, MOut::Ret(_));
    let engines: &[Engine] = if with_jit { &[Engine::Interp, Engine::Jit] } else { &[Engine::Interp] };
    let r = runner.run(case, engines);
    let v = compare_interp_with_model(case, &m, None, &r[0]);
    if !matches!(v, Verdict::Pass) {
        return v;
    }
    if with_jit {
        return compare_compiled_with_interp(case, &m, &r[0], &r[1]);
    }
    Verdict::Pass
}

fn run(ctx: &Ctx) {
    let runner = RefCell::new(Runner::new());
    ctx.shrink_iters.set(3000);
    let cases = ctx.share(ctx.tier.pick(128_000, 2_560_000));
    ctx.search("callgraph", "exec", cases, cprog(), |p, want_case| {
        let mut case = lower(p);
        let mut st = ctx.stats();
        let frozen = st.is_frozen() || want_case;
        let v = check(&mut runner.borrow_mut(), &mut case, if frozen { None } else { Some(&mut st) });
        (v, if want_case { case.to_json() } else { Value::Null })
    });
}

fn replay(_ctx: &Ctx, _kind: &str, case: &Value) -> Verdict {
    let mut c = ExecCase::from_json(case);
    check(&mut Runner::new(), &mut c, None)
}
