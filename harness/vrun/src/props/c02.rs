//! C02 - the interpreter confines every load and store to the program's own memory.
//! C11 - Cranelift-compiled code never touches memory outside the program's regions.
//!
//! Single-access probe programs against an exact oracle computed from the real addresses of the
//! regions, evaluated inside a forked child (which knows the addresses); buffers sit against
//! PROT_NONE guard pages and inside canary-filled arenas.

use super::{catch, PropDef};
use crate::engine::*;
use crate::isa::{self, *};
use crate::runner::{Arena, PAGE};
use proptest::prelude::*;
use serde_json::{json, Value};
use std::cell::RefCell;

pub fn def02() -> PropDef {
    PropDef {
        info: PropInfo {
            id: "C02",
            rule: "layouts: VM struct (metadata VM, raw VM without metadata buffer, no-data VM without packet either), packet of 0-64 bytes and metadata buffer absent or 8-64 bytes, each placed start- or end-against a PROT_NONE page; 0-3 registered ranges of 1-32 bytes inside a canary-filled arena, some separated by holes of only 1-7 bytes; in a third of the layouts one more registered range covers all the others (extended by 0-3 bytes on either side) and is registered last, first, second, or with the whole order reversed; in a quarter of the layouts a registered range encloses the packet (0-15 bytes more below, 0-7 above). probes: one access instruction {ldx, st, stx, xadd, ldabs, ldind} x width {1,2,4,8} whose effective address is a region boundary (start or end of packet / metadata / each range / the stack) plus a delta in [-9,+9], or 0, 1, u64::MAX-k, a base+offset sum that wraps past 2^64, or a far address; base value and displacement are split randomly between register and 16-bit offset (imm+src for ldind); half of the stack probes use r10 itself as the base register; a quarter of the probes first perform a narrower access through the same register and offset; a quarter first perform an in-bounds access of the same offset and width and then redefine the base register (lddw, mov, add, stack reload, result of a helper call, ldabs); one in eight is loaded under an accept-all verifier and moves r10 by -128..127 just before the access (the stack region does not move with r10); in a quarter of the layouts the metadata buffer starts 1-7 bytes after the end of the packet. Oracle (computed from the real addresses inside the child): allowed <=> all bytes inside exactly one region (and naturally aligned for xadd); allowed => Ok with the exact loaded value / exactly the stored bytes changed; refused => Err (never a panic or signal) and no byte of packet, metadata, arena or canaries changed. The thorough tier additionally enumerates every (region boundary, delta, kind, width) combination for fixed layouts. Non-trivial = effective address within 9 bytes of a region boundary, or wrapped; distinct by hash of layout+probe.",
            assumptions: &["the interpreter's stack is reached through r10-relative probes (its absolute address is unknown); loads from it only have to succeed", "registered ranges never touch or partially overlap each other or the other regions (holes of 1-7 bytes between two ranges, one range that wholly contains the others and one that wholly contains the packet are generated on purpose): an access inside the union of two partially overlapping ranges but inside neither is left undecided by the statement"],
        },
        run: run02,
        replay: replay02,
        single_worker: false,
    }
}

pub fn def11() -> PropDef {
    PropDef {
        info: PropInfo {
            id: "C11",
            rule: "the C02 probe generator restricted to the regions Cranelift knows {packet, metadata buffer, 512-byte stack} on the metadata VM, the raw VM and the no-data VM (metadata buffer present or empty, packet empty or not), same boundary windows (incl. packet and metadata buffer only 1-7 bytes apart, a narrower priming access through the same register and offset, up to four in-bounds loads through the same register at other offsets - into whichever regions the 16-bit offset reaches - and, in a quarter of the probes, an in-bounds access of the same offset and width after which the base register is redefined by lddw / mov / add / a stack reload / the result of a helper call / ldabs, all in the same basic block), null, top-of-address-space and wrap-around addresses; plus 240 enumerated packet loads (ldabs / ldind, every width) on an EMPTY packet - the dangling slice `&mut []` and an empty slice at a mapped address - on the raw, metadata and fixed-metadata VM structs, which must trap. Each probe is compiled with Cranelift and executed in its own forked child. Oracle: in bounds => the child returns the exact loaded value / the stored bytes are exactly the expected ones; out of bounds => the child is terminated by SIGILL (the trap) and no byte of packet, metadata or the surrounding canary bytes changed; a normal return, SIGSEGV/SIGBUS, or a changed byte is a violation. Non-trivial = effective address within 9 bytes of a region boundary, or wrapped; distinct by hash of layout+probe.",
            assumptions: &["a Cranelift trap surfaces as SIGILL (ud2) in the child", "guard pages make an out-of-region read fault; a returned value proves that a read was performed"],
        },
        run: run11,
        replay: replay11,
        single_worker: false,
    }
}

#[derive(Clone, Debug)]
pub struct Layout {
    pkt_len: u8,
    pkt_at_end: bool,
    mbuff_len: u8,
    mbuff_at_end: bool,
    /// (position selector, length, gap) of registered ranges inside the canary arena; gap > 0
    /// places the range `gap` bytes after the end of the previous one (a hole of 1-7 bytes
    /// between two registered ranges), gap == 0 gives it a slot of its own
    ranges: Vec<(u8, u8, u8)>,
    fill: u8,
    /// 0 = packet and metadata buffer live in separate arenas; 1-7 = the metadata buffer starts
    /// this many bytes after the end of the packet (two regions with a small hole in between)
    mbuff_gap: u8,
    /// bit 0: one more registered range that covers all the others (bits 1-2 / 3-4: bytes it
    /// extends below / above them); bits 5-6: where it comes in the order of registration
    /// (last, first, everything reversed, second)
    cover: u8,
    /// bit 0: one more registered range that encloses the packet (bits 1-4 / 5-7: bytes it extends
    /// below / above the packet, clipped to the accessible page): regions may overlap, an access
    /// wholly inside any one of them must be carried out
    enclose: u8,
    /// VM struct the probe runs on: 0 = metadata VM, 1 = raw VM (no metadata buffer), 2 = no-data VM
    /// (neither packet nor metadata buffer); the lengths above are already adjusted to it
    vm: u8,
}

#[derive(Clone, Copy, Debug, PartialEq, Eq)]
pub enum Kind2 {
    Ldx,
    St,
    Stx,
    Xadd,
    LdAbs,
    LdInd,
}

#[derive(Clone, Debug)]
pub enum Target {
    /// region: 0 = packet, 1 = metadata, 2.. = registered range; edge: false = start, true = end
    Edge { region: u8, end: bool, delta: i8 },
    /// relative to the top of the stack (r10)
    Stack { delta: i16 },
    Abs(u64),
    /// register value close to 2^64 plus a positive offset
    Wrap { back: u8, off: u8 },
}

#[derive(Clone, Debug)]
pub struct Probe {
    kind: Kind2,
    width: u8,
    target: Target,
    split: i16,
    val: u64,
    /// 0 = none; otherwise a narrower access through the same register and offset is executed
    /// first (bit 0: store instead of load; bits 1-2: its width 1/2/4)
    prime: u8,
    /// in-bounds byte loads through the same base register (other offsets, any region that the
    /// 16-bit offset can reach) executed before the probe, in the same basic block:
    /// (region selector, position inside the region)
    warm: Vec<(u8, u8)>,
    /// 0 = none. Otherwise the base register first serves an in-bounds access with the same
    /// offset and width (region chosen by the high nibble) and is then redefined, in the same
    /// basic block, to the probe's base by: 1 lddw, 2 mov from another register, 3 add of the
    /// difference, 4 reload from a stack slot, 5 the result of a helper call (r0), 6 ldabsb (r0 =
    /// first packet byte: the probe then aims at that small address + offset)
    rebase: u8,
    /// non-zero: the program is loaded under a verifier that accepts everything and adds this
    /// amount to r10 just before the probing access (whose address was computed from the
    /// original r10): the stack the VM confines accesses to does not move with r10
    move_r10: i8,
}

fn layout(with_ranges: bool) -> impl Strategy<Value = Layout> {
    let ranges = if with_ranges { prop::collection::vec((any::<u8>(), 1u8..33, prop_oneof![2 => Just(0u8), 1 => 1u8..8]), 0..4).boxed() } else { Just(vec![]).boxed() };
    (prop_oneof![1 => Just(0u8), 5 => 1u8..65], any::<bool>(), prop_oneof![1 => Just(0u8), 3 => 8u8..65], any::<bool>(), ranges, any::<u8>(), prop_oneof![3 => Just(0u8), 1 => 1u8..8], prop_oneof![2 => Just(0u8), 1 => any::<u8>().prop_map(|x| x | 1)], prop_oneof![4 => Just(0u8), 2 => Just(1u8), 1 => Just(2u8)], prop_oneof![3 => Just(0u8), 1 => any::<u8>().prop_map(|x| x | 1)])
        .prop_map(move |(pkt_len, pkt_at_end, mbuff_len, mbuff_at_end, ranges, fill, mbuff_gap, cover, vm, enclose)| {
            let (pkt_len, mbuff_len) = match vm {
                0 => (pkt_len, mbuff_len),
                1 => (pkt_len, 0),
                _ => (0, 0),
            };
            let enclose = if with_ranges && pkt_len > 0 { enclose } else { 0 };
            Layout { pkt_len, pkt_at_end, mbuff_len, mbuff_at_end, ranges, fill, mbuff_gap, cover, vm, enclose }
        })
}

fn probe(nregions: u8, cranelift: bool) -> impl Strategy<Value = Probe> {
    let kinds = if cranelift {
        vec![Kind2::Ldx, Kind2::St, Kind2::Stx, Kind2::Xadd, Kind2::LdAbs, Kind2::LdInd]
    } else {
        vec![Kind2::Ldx, Kind2::Ldx, Kind2::St, Kind2::Stx, Kind2::Xadd, Kind2::LdAbs, Kind2::LdInd]
    };
    let target = prop_oneof![
        10 => (0..nregions, any::<bool>(), -9i8..=9).prop_map(|(region, end, delta)| Target::Edge { region, end, delta }),
        4 => prop_oneof![-522i16..=-500, -12i16..=9, -512i16..=0].prop_map(|delta| Target::Stack { delta }),
        1 => prop_oneof![Just(0u64), Just(1u64), (0u64..16).prop_map(|k| u64::MAX - k), any::<u64>().prop_map(|x| x | (1 << 62)), Just(4096u64), Just(8u64)].prop_map(Target::Abs),
        1 => (0u8..16, 0u8..32).prop_map(|(back, off)| Target::Wrap { back, off }),
    ];
    (prop::sample::select(kinds), prop::sample::select(vec![1u8, 2, 4, 8]), target, prop_oneof![1 => Just(0i16), 2 => any::<i16>(), 1 => -64i16..64], crate::gen::interesting_u64(), prop_oneof![3 => Just(0u8), 1 => 1u8..8], prop_oneof![1 => Just(vec![]).boxed(), 1 => prop::collection::vec((any::<u8>(), any::<u8>()), 1..5).boxed()], prop_oneof![3 => Just(0u8), 1 => (1u8..7, 0u8..16).prop_map(|(m, r)| m | r << 4)], prop_oneof![7 => Just(0i8), 1 => prop::sample::select(vec![8i8, 64, -8, -64, 127, -128, 1, 16])])
        .prop_map(|(kind, width, target, split, val, prime, warm, rebase, move_r10)| Probe { kind, width, target, split, val, prime, warm, rebase, move_r10 })
}

pub fn case_strategy(with_ranges: bool, cranelift: bool) -> impl Strategy<Value = (Layout, Probe)> {
    layout(with_ranges).prop_flat_map(move |l| {
        let n = 2 + l.ranges.len() as u8 + (l.cover & 1 != 0 && !l.ranges.is_empty()) as u8 + (l.enclose & 1 != 0 && l.pkt_len > 0) as u8;
        (Just(l), probe(n, cranelift))
    })
}

// ---- concrete memory -------------------------------------------------------------------------

pub struct Mem {
    pkt: Arena,
    mbuff: Arena,
    ranges: Arena,
    shared: *mut SharedProbe,
}

#[repr(C)]
pub struct SharedProbe {
    stage: u32,
    status: u32,
    allowed: u32,
    near: u32,
    value: u64,
    msg_len: u32,
    msg: [u8; 600],
}

const ST_PASS: u32 = 1;
const ST_FAIL: u32 = 2;
const ST_SKIP: u32 = 3;

#[derive(Clone, Debug)]
struct Regions {
    /// (start, len) of packet, metadata, ranges...
    regs: Vec<(u64, u64)>,
    /// first byte of the packet once the arenas are filled
    pkt0: u8,
}

impl Mem {
    pub fn new() -> Mem {
        unsafe {
            let p = libc::mmap(std::ptr::null_mut(), PAGE, libc::PROT_READ | libc::PROT_WRITE, libc::MAP_ANONYMOUS | libc::MAP_SHARED, -1, 0);
            assert!(p != libc::MAP_FAILED);
            Mem { pkt: Arena::new(1, false), mbuff: Arena::new(1, false), ranges: Arena::new(1, false), shared: p as *mut SharedProbe }
        }
    }

    fn regions(&self, l: &Layout) -> Regions {
        let adjacent = l.mbuff_gap > 0 && l.pkt_len > 0 && l.mbuff_len > 0;
        let pkt_start = if adjacent { self.pkt.data_start() as u64 + 128 } else { self.pkt.place(l.pkt_len as usize, l.pkt_at_end) as u64 };
        let mut regs = vec![(pkt_start, l.pkt_len as u64)];
        // an absent metadata buffer is the empty slice (dangling pointer, length 0)
        let m = if l.mbuff_len == 0 {
            (1u64, 0u64)
        } else if adjacent {
            (pkt_start + l.pkt_len as u64 + l.mbuff_gap as u64, l.mbuff_len as u64)
        } else {
            (self.mbuff.place(l.mbuff_len as usize, l.mbuff_at_end) as u64, l.mbuff_len as u64)
        };
        regs.push(m);
        // ranges: non-touching slots of 96 bytes inside the arena page, away from its edges
        let mut prev_end: Option<u64> = None;
        for (k, (pos, len, gap)) in l.ranges.iter().enumerate() {
            let slot = 256 + k as u64 * 1024 + (*pos as u64 % 8) * 96;
            let start = match (prev_end, *gap) {
                (Some(e), g) if g > 0 => e + g as u64,
                _ => self.ranges.data_start() as u64 + slot + (*pos as u64 >> 3) % 17,
            };
            regs.push((start, *len as u64));
            prev_end = Some(start + *len as u64);
        }
        if l.cover & 1 != 0 && regs.len() > 2 {
            let lo = regs[2..].iter().map(|r| r.0).min().unwrap() - ((l.cover >> 1) & 3) as u64;
            let hi = regs[2..].iter().map(|r| r.0 + r.1).max().unwrap() + ((l.cover >> 3) & 3) as u64;
            regs.push((lo, hi - lo));
        }
        if l.enclose & 1 != 0 && l.pkt_len > 0 {
            let (ps, pl) = regs[0];
            let lo = ps.saturating_sub(((l.enclose >> 1) & 15) as u64).max(self.pkt.data_start() as u64);
            let hi = (ps + pl + ((l.enclose >> 5) & 7) as u64).min(self.pkt.data_start() as u64 + PAGE as u64);
            regs.push((lo, hi - lo));
        }
        let pkt0 = ((regs[0].0.wrapping_sub(self.pkt.data_start() as u64)) as u8).wrapping_mul(31).wrapping_add(l.fill).wrapping_add(97) | 1;
        Regions { regs, pkt0 }
    }

    unsafe fn fill(&self, l: &Layout) {
        for (a, salt) in [(&self.pkt, 1u8), (&self.mbuff, 2), (&self.ranges, 3)] {
            let p = a.data_start();
            for i in 0..PAGE {
                *p.add(i) = (i as u8).wrapping_mul(31).wrapping_add(l.fill).wrapping_add(salt.wrapping_mul(97)) | 1;
            }
        }
    }

    unsafe fn snapshot(&self) -> Vec<u8> {
        let mut v = Vec::with_capacity(3 * PAGE);
        for a in [&self.pkt, &self.mbuff, &self.ranges] {
            v.extend_from_slice(std::slice::from_raw_parts(a.data_start(), PAGE));
        }
        v
    }

    /// index into the snapshot of an absolute address, if it lies in one of the arenas
    fn snap_index(&self, addr: u64) -> Option<usize> {
        for (k, a) in [&self.pkt, &self.mbuff, &self.ranges].iter().enumerate() {
            let s = a.data_start() as u64;
            if addr >= s && addr < s + PAGE as u64 {
                return Some(k * PAGE + (addr - s) as usize);
            }
        }
        None
    }
}

/// The probe program and what it is expected to do.
struct Built {
    prog: Vec<u8>,
    /// effective address if absolute (None for stack-relative probes)
    ea: Option<u64>,
    stack_delta: Option<i64>,
    near: bool,
    /// (is store, width) of the priming access actually emitted
    prime: Option<(bool, usize)>,
}

fn build(p: &Probe, r: &Regions, ld_base: u64) -> Option<Built> {
    let w = p.width as usize;
    let mut out: Vec<Insn> = Vec::new();
    let lddw = |out: &mut Vec<Insn>, dst: u8, v: u64| {
        out.push(Insn::new(LDDW, dst, 0, 0, v as u32 as i32));
        out.push(Insn::new(0, 0, 0, 0, (v >> 32) as u32 as i32));
    };
    // r0 = sentinel (returned by stores), r2 = value to store / add
    lddw(&mut out, 0, 0x5e17_1e1e_5e17_1e1e);
    lddw(&mut out, 2, p.val);
    let mut near = false;
    let (ea, stack_delta): (Option<u64>, Option<i64>) = match &p.target {
        Target::Edge { region, end, delta } => {
            // packet-relative loads are aimed at the packet's own boundaries most of the time
            let region = if matches!(p.kind, Kind2::LdAbs | Kind2::LdInd) && *delta % 4 != 0 { 0 } else { *region };
            let (s, l) = r.regs[region as usize % r.regs.len()];
            near = true;
            (Some((if *end { s + l } else { s }).wrapping_add(*delta as i64 as u64)), None)
        }
        Target::Stack { delta } => {
            near = *delta > -522 && (*delta < -500 || *delta > -12);
            (None, Some(*delta as i64))
        }
        Target::Abs(a) => (Some(*a), None),
        Target::Wrap { back, off } => {
            near = true;
            (Some((u64::MAX - *back as u64).wrapping_add(*off as u64)), None)
        }
    };
    let xadd = p.kind == Kind2::Xadd;
    if xadd && w < 4 {
        return None;
    }
    let mut prime: Option<(bool, usize)> = None;
    match p.kind {
        Kind2::LdAbs | Kind2::LdInd => {
            // packet-relative addressing: ea = packet + zx(imm) (+ src)
            let ea = ea?;
            let rel = ea.wrapping_sub(ld_base);
            if p.kind == Kind2::LdAbs {
                if rel > i32::MAX as u64 {
                    return None;
                }
                out.push(Insn::new(ldabs_opc(w), 0, 0, 0, rel as i32));
            } else {
                // split rel between the register and a non-negative immediate
                let imm = if rel <= i32::MAX as u64 { (p.split as u16 as u64).min(rel) } else { p.split as u16 as u64 & 0xff };
                lddw(&mut out, 3, rel.wrapping_sub(imm));
                out.push(Insn::new(ldind_opc(w), 0, 3, 0, imm as i32));
            }
        }
        _ => {
            // r1 = base, access [r1 + off]
            let off = p.split;
            match (ea, stack_delta) {
                (Some(ea), _) => match &p.target {
                    Target::Wrap { back, off: o } => {
                        // keep the wrap in the addition performed by the access itself
                        lddw(&mut out, 1, u64::MAX - *back as u64);
                        let off = *o as i16;
                        emit_access(&mut out, p, w, off);
                        out.push(Insn::new(EXIT, 0, 0, 0, 0));
                        return Some(Built { prog: encode_prog(&out), ea: Some(ea), stack_delta: None, near, prime: None });
                    }
                    _ if p.rebase & 15 != 0 => {
                        let method = p.rebase & 15;
                        let base: u8 = if method >= 5 { 0 } else { 1 };
                        let cands: Vec<(u64, u64)> = r.regs.iter().copied().filter(|(_, l)| *l >= w as u64).collect();
                        if cands.is_empty() || (method == 6 && r.regs[0].1 == 0) {
                            return None;
                        }
                        let first = cands[(p.rebase >> 4) as usize % cands.len()].0;
                        let disp = off as i64 as u64;
                        lddw(&mut out, base, first.wrapping_sub(disp));
                        out.push(Insn::new(ldx_opc(w), 3, base, off, 0));
                        let target = ea.wrapping_sub(disp);
                        let mut ea = ea;
                        match method {
                            1 => lddw(&mut out, base, target),
                            2 => {
                                lddw(&mut out, 4, target);
                                out.push(Insn::new(alu_opc(true, ALU_MOV, true), base, 4, 0, 0));
                            }
                            3 => {
                                lddw(&mut out, 4, target.wrapping_sub(first.wrapping_sub(disp)));
                                out.push(Insn::new(alu_opc(true, ALU_ADD, true), base, 4, 0, 0));
                            }
                            4 => {
                                lddw(&mut out, 4, target);
                                out.push(Insn::new(stx_opc(8), 10, 4, -8, 0));
                                out.push(Insn::new(ldx_opc(8), base, 10, -8, 0));
                            }
                            5 => {
                                lddw(&mut out, 1, target);
                                out.push(Insn::new(CALL, 0, 0, 0, IDENT_ID as i32));
                                lddw(&mut out, 2, p.val);
                            }
                            _ => {
                                out.push(Insn::new(ldabs_opc(1), 0, 0, 0, 0));
                                ea = (r.pkt0 as u64).wrapping_add(disp);
                                near = false;
                            }
                        }
                        emit_access_via(&mut out, p, w, off, base);
                        out.push(Insn::new(EXIT, 0, 0, 0, 0));
                        return Some(Built { prog: encode_prog(&out), ea: Some(ea), stack_delta: None, near, prime: None });
                    }
                    _ => lddw(&mut out, 1, ea.wrapping_sub(off as i64 as u64)),
                },
                (None, Some(d)) if p.val & 1 == 1 && p.move_r10 == 0 && p.rebase & 15 == 0 => {
                    // the frame pointer itself is the base register: [r10 + delta]
                    emit_access_via(&mut out, p, w, d as i16, 10);
                    out.push(Insn::new(EXIT, 0, 0, 0, 0));
                    return Some(Built { prog: encode_prog(&out), ea, stack_delta, near, prime: None });
                }
                (None, Some(d)) => {
                    out.push(Insn::new(alu_opc(true, ALU_MOV, true), 1, 10, 0, 0));
                    out.push(Insn::new(alu_opc(true, ALU_ADD, false), 1, 0, 0, (d - off as i64) as i32));
                }
                _ => return None,
            }
            // optional in-bounds loads through the same register at other offsets first
            for (rsel, psel) in &p.warm {
                let o: i64 = match (ea, stack_delta) {
                    (Some(ea), _) => {
                        let (s, l) = r.regs[*rsel as usize % r.regs.len()];
                        if l == 0 {
                            continue;
                        }
                        (s + ((*psel as u64 * l) >> 8)).wrapping_sub(ea.wrapping_sub(off as i64 as u64)) as i64
                    }
                    (None, Some(d)) => -1 - ((*psel as i64 * 512) >> 8) - (d - off as i64),
                    _ => continue,
                };
                if o >= i16::MIN as i64 && o <= i16::MAX as i64 {
                    out.push(Insn::new(ldx_opc(1), 3, 1, o as i16, 0));
                }
            }
            // optional narrower access through the same register and offset first
            if p.prime != 0 {
                let pw = [1usize, 2, 4, 1][(p.prime as usize >> 1) & 3];
                if pw < w {
                    let is_store = p.prime & 1 != 0;
                    if is_store {
                        out.push(Insn::new(st_opc(pw), 1, 0, off, PRIME_IMM));
                    } else {
                        out.push(Insn::new(ldx_opc(pw), 3, 1, off, 0));
                    }
                    prime = Some((is_store, pw));
                }
            }
            if p.move_r10 != 0 {
                out.push(Insn::new(alu_opc(true, ALU_ADD, false), 10, 0, 0, p.move_r10 as i32));
            }
            emit_access(&mut out, p, w, off);
        }
    }
    out.push(Insn::new(EXIT, 0, 0, 0, 0));
    Some(Built { prog: encode_prog(&out), ea, stack_delta, near, prime })
}

const PRIME_IMM: i32 = 0x5a6b7c;

fn emit_access(out: &mut Vec<Insn>, p: &Probe, w: usize, off: i16) {
    emit_access_via(out, p, w, off, 1)
}

fn emit_access_via(out: &mut Vec<Insn>, p: &Probe, w: usize, off: i16, base: u8) {
    match p.kind {
        Kind2::Ldx => out.push(Insn::new(ldx_opc(w), 0, base, off, 0)),
        Kind2::St => out.push(Insn::new(st_opc(w), base, 0, off, p.val as i32)),
        Kind2::Stx => out.push(Insn::new(stx_opc(w), base, 2, off, 0)),
        Kind2::Xadd => out.push(Insn::new(xadd_opc(w), base, 2, off, 0)),
        _ => unreachable!(),
    }
}

const IDENT_ID: u32 = 1;

/// helper: returns its first argument
fn ident(a: u64, _b: u64, _c: u64, _d: u64, _e: u64) -> u64 {
    a
}

fn set_fail(sh: &mut SharedProbe, m: &str) {
    sh.status = ST_FAIL;
    let b = m.as_bytes();
    let n = b.len().min(sh.msg.len());
    sh.msg[..n].copy_from_slice(&b[..n]);
    sh.msg_len = n as u32;
}

#[derive(Clone, Copy, PartialEq, Eq)]
pub enum Eng {
    Interp,
    Cranelift,
}

/// Evaluate one probe inside the child. Returns only through the shared page.
unsafe fn child_probe(mem: &Mem, l: &Layout, p: &Probe, eng: Eng) {
    let sh = &mut *mem.shared;
    sh.stage = 1;
    let regs = mem.regions(l);
    // base of ldabs/ldind: the packet pointer; Cranelift is handed a null pointer for an empty packet
    let ld_base = if eng == Eng::Cranelift && l.pkt_len == 0 { 0 } else { regs.regs[0].0 };
    // the no-data VM hands the interpreter an empty slice of its own: the base of packet-relative
    // loads is not an address this harness knows
    if l.vm % 3 == 2 && matches!(p.kind, Kind2::LdAbs | Kind2::LdInd) {
        sh.status = ST_SKIP;
        return;
    }
    let Some(b) = build(p, &regs, ld_base) else {
        sh.status = ST_SKIP;
        return;
    };
    mem.fill(l);
    let before = mem.snapshot();
    let w = p.width as u64;
    // oracle
    let in_region_w = |ea: u64, w: u64| -> bool { regs.regs.iter().any(|(s, len)| ea >= *s && ea.checked_add(w).map(|e| e <= s + len).unwrap_or(false)) };
    let in_region = |ea: u64| -> bool { in_region_w(ea, w) };
    let (mut allowed, is_stack) = match (b.ea, b.stack_delta) {
        (Some(ea), _) => (in_region(ea), false),
        (None, Some(d)) => (d >= -512 && d + w as i64 <= 0, true),
        _ => unreachable!(),
    };
    // the priming access (same address, narrower) comes first: if it is refused, so is the program
    let prime_allowed = match (b.prime, b.ea, b.stack_delta) {
        (None, _, _) => true,
        (Some((_, pw)), Some(ea), _) => in_region_w(ea, pw as u64),
        (Some((_, pw)), None, Some(d)) => d >= -512 && d + pw as i64 <= 0,
        _ => true,
    };
    let aligned = match (b.ea, b.stack_delta) {
        (Some(ea), _) => ea % w == 0,
        (None, Some(d)) => d.rem_euclid(w as i64) == 0,
        _ => true,
    };
    let in_bounds = allowed;
    if p.kind == Kind2::Xadd && !aligned && eng == Eng::Interp {
        allowed = false; // a misaligned atomic add is an interpreter error (C18)
    }
    allowed = allowed && prime_allowed;
    sh.allowed = allowed as u32;
    sh.near = b.near as u32;
    let prog: &'static [u8] = std::mem::transmute::<&[u8], &'static [u8]>(&b.prog[..]);
    let pkt: &'static mut [u8] = std::slice::from_raw_parts_mut(regs.regs[0].0 as *mut u8, l.pkt_len as usize);
    let mb: &'static mut [u8] = if l.mbuff_len == 0 { &mut [] } else { std::slice::from_raw_parts_mut(regs.regs[1].0 as *mut u8, l.mbuff_len as usize) };
    let kind = match l.vm % 3 {
        0 => crate::runner::VmKind::Mbuff { data_off: 0, end_off: 8 },
        1 => crate::runner::VmKind::Raw,
        _ => crate::runner::VmKind::NoData,
    };
    let writes_r10 = crate::isa::decode_prog(prog).iter().any(|x| x.dst == 10 && x.opc == alu_opc(true, ALU_ADD, false));
    let made = if writes_r10 {
        // only a custom verifier lets a program write r10
        fn accept_all(_prog: &[u8]) -> Result<(), std::io::Error> {
            Ok(())
        }
        crate::vmx::AnyVm::new(kind, None).and_then(|mut vm| {
            vm.set_verifier(accept_all)?;
            vm.set_program(prog, (0, 8))?;
            Ok(vm)
        })
    } else {
        crate::vmx::AnyVm::new(kind, Some(prog))
    };
    let mut vm = match made {
        Ok(vm) => vm,
        Err(e) => {
            set_fail(sh, &format!("probe program rejected by the verifier: {e}"));
            return;
        }
    };
    vm.register_helper(IDENT_ID, ident).expect("register_helper");
    let mut to_register: Vec<(u64, u64)> = regs.regs[2..].to_vec();
    // the range enclosing the packet (if any) is the last region: set it aside while the order of
    // the others is permuted
    let enclosing = if l.enclose & 1 != 0 && l.pkt_len > 0 { to_register.pop() } else { None };
    if l.cover & 1 != 0 && to_register.len() > 1 {
        // the covering range is the last of the list; registration order is part of the input
        match (l.cover >> 5) & 3 {
            0 => {}
            1 => to_register.rotate_right(1),
            2 => to_register.reverse(),
            _ => {
                let c = to_register.pop().unwrap();
                to_register.insert(1, c);
            }
        }
    }
    if let Some(e) = enclosing {
        if l.enclose & 0x10 != 0 {
            to_register.insert(0, e);
        } else {
            to_register.push(e);
        }
    }
    for (s, len) in &to_register {
        vm.register_allowed_memory(*s..*s + *len);
    }
    // expected memory image
    let mut expect = before.clone();
    let mut expect_val: Option<u64> = None;
    if prime_allowed && !is_stack {
        if let (Some((true, pw)), Some(ea)) = (b.prime, b.ea) {
            // a priming store is carried out even if the main access is refused afterwards
            let idx = mem.snap_index(ea).expect("allowed address is inside an arena");
            expect[idx..idx + pw].copy_from_slice(&(PRIME_IMM as i64 as u64).to_le_bytes()[..pw]);
        }
    }
    let before = expect.clone();
    if !TRAP.is_null() {
        // what memory must look like if the main access traps
        (*TRAP).before = before.clone();
    }
    if allowed && !is_stack {
        let ea = b.ea.unwrap();
        let idx = mem.snap_index(ea).expect("allowed address is inside an arena");
        let mut cur = [0u8; 8];
        cur[..w as usize].copy_from_slice(&before[idx..idx + w as usize]);
        let cur = u64::from_le_bytes(cur);
        let mask = if w == 8 { u64::MAX } else { (1u64 << (8 * w)) - 1 };
        let newv: Option<u64> = match p.kind {
            Kind2::Ldx | Kind2::LdAbs | Kind2::LdInd => {
                expect_val = Some(cur);
                None
            }
            Kind2::St => Some((p.val as i32 as i64 as u64) & mask),
            Kind2::Stx => Some(p.val & mask),
            Kind2::Xadd => Some(cur.wrapping_add(p.val) & mask),
        };
        if let Some(v) = newv {
            expect[idx..idx + w as usize].copy_from_slice(&v.to_le_bytes()[..w as usize]);
        }
    }
    let desc = || {
        format!(
            "{:?} width {} target {:?} split {} val {:#x}; ea {:?} stack_delta {:?}; regions (start,len) {:x?}; in_bounds={in_bounds} aligned={aligned}\n{}",
            p.kind, p.width, p.target, p.split, p.val, b.ea.map(|e| format!("{e:#x}")), b.stack_delta, regs.regs, isa::listing(&b.prog, 12).join("\n")
        )
    };
    match eng {
        Eng::Interp => {
            sh.stage = 3;
            rbpf::verif_hooks::set_insn_budget(1000);
            let r = catch(std::panic::AssertUnwindSafe(move || {
                let (p, m) = (pkt, mb);
                vm.exec(crate::runner::Engine::Interp, p, m)
            }));
            sh.stage = 4;
            let after = mem.snapshot();
            match r {
                Err(m) => return set_fail(sh, &format!("PANIC interp:{}\ninterpreter panicked: {m}\n{}", crate::props::panic_signature(&m), desc())),
                Ok(Ok(v)) => {
                    if !allowed {
                        return set_fail(sh, &format!("SIG interp:access-not-refused\nthe access was carried out (returned {v:#x}) although its bytes are not inside one region\n{}", desc()));
                    }
                    if let Some(ev) = expect_val {
                        if v != ev {
                            return set_fail(sh, &format!("SIG interp:wrong-loaded-value\nloaded {v:#x}, memory holds {ev:#x}\n{}", desc()));
                        }
                    }
                }
                Ok(Err(e)) => {
                    if allowed {
                        return set_fail(sh, &format!("SIG interp:access-refused\nan access wholly inside a region was refused: {}\n{}", e.to_string().lines().next().unwrap_or(""), desc()));
                    }
                }
            }
            if let Some(i) = after.iter().zip(expect.iter()).position(|(a, b)| a != b) {
                return set_fail(
                    sh,
                    &format!("SIG interp:{}\nbyte {} of arena {} is {:#x}, expected {:#x}\n{}", if allowed { "wrong-bytes-stored" } else { "refused-access-changed-memory" }, i % PAGE, i / PAGE, after[i], expect[i], desc()),
                );
            }
            sh.status = ST_PASS;
        }
        Eng::Cranelift => {
            sh.stage = 2;
            if let Err(e) = vm.cranelift_compile() {
                return set_fail(sh, &format!("SIG cranelift:compile-error\n{e}\n{}", desc()));
            }
            // the parent needs the expected image if we die in the trap: publish what it needs
            sh.stage = 3;
            let v = vm.exec(crate::runner::Engine::Cranelift, pkt, mb);
            sh.stage = 4;
            let after = mem.snapshot();
            match v {
                Ok(v) => {
                    sh.value = v;
                    if !allowed {
                        return set_fail(sh, &format!("SIG cranelift:no-trap\nthe program returned {v:#x} although the access is not inside one region (no trap)\n{}", desc()));
                    }
                    if let Some(ev) = expect_val {
                        if v != ev {
                            return set_fail(sh, &format!("SIG cranelift:wrong-loaded-value\nloaded {v:#x}, memory holds {ev:#x}\n{}", desc()));
                        }
                    }
                }
                Err(e) => return set_fail(sh, &format!("SIG cranelift:error\n{e}\n{}", desc())),
            }
            if let Some(i) = after.iter().zip(expect.iter()).position(|(a, b)| a != b) {
                return set_fail(sh, &format!("SIG cranelift:wrong-bytes-stored\nbyte {} of arena {} is {:#x}, expected {:#x}\n{}", i % PAGE, i / PAGE, after[i], expect[i], desc()));
            }
            sh.status = ST_PASS;
        }
    }
}

/// Run one probe in a forked child and turn the outcome into a verdict.
/// Returns (verdict, allowed, near).
pub fn run_probe(mem: &Mem, l: &Layout, p: &Probe, eng: Eng) -> (Verdict, bool, bool) {
    unsafe {
        let sh = &mut *mem.shared;
        sh.stage = 0;
        sh.status = 0;
        sh.msg_len = 0;
        sh.allowed = 0;
        sh.near = 0;
        let before_parent;
        {
            // the parent needs the pre-image to check "no byte changed" after a trap: the arenas
            // are MAP_PRIVATE, so a child's writes are invisible here - the child reports instead.
            before_parent = ();
        }
        let _ = before_parent;
        let pid = libc::fork();
        assert!(pid >= 0);
        if pid == 0 {
            libc::alarm(180);
            // for the trap case the child installs a SIGILL handler that verifies memory and exits
            if eng == Eng::Cranelift {
                install_trap_handler(mem, l, p);
            }
            let r = std::panic::catch_unwind(std::panic::AssertUnwindSafe(|| child_probe(mem, l, p, eng)));
            libc::_exit(if r.is_ok() { 0 } else { 97 });
        }
        let mut status = 0i32;
        libc::waitpid(pid, &mut status, 0);
        let sh = &*mem.shared;
        let allowed = sh.allowed != 0;
        let near = sh.near != 0;
        let msg = String::from_utf8_lossy(&sh.msg[..sh.msg_len as usize]).to_string();
        let fail_from_msg = |msg: &str| {
            let (first, rest) = msg.split_once('\n').unwrap_or((msg, ""));
            let sig = first.strip_prefix("SIG ").or_else(|| first.strip_prefix("PANIC ")).unwrap_or("probe-failed");
            Verdict::fail(sig, rest)
        };
        let v = if libc::WIFEXITED(status) {
            match (libc::WEXITSTATUS(status), sh.status) {
                (0, ST_PASS) => Verdict::Pass,
                (0, ST_SKIP) => Verdict::Discard("probe-not-expressible"),
                (0, ST_FAIL) => fail_from_msg(&msg),
                (41, _) => Verdict::Pass, // trap handler: refused access, memory verified unchanged
                (42, _) => fail_from_msg(&msg),
                (c, s) => Verdict::fail("harness:child-exit", format!("child exit code {c}, status {s}, stage {}", sh.stage)),
            }
        } else if libc::WIFSIGNALED(status) {
            let sig = libc::WTERMSIG(status);
            if sig == libc::SIGALRM {
                Verdict::Inconclusive("probe hit the 180 s watchdog".into())
            } else {
                let who = if eng == Eng::Interp { "interp" } else { "cranelift" };
                Verdict::fail(
                    format!("{who}:signal-{sig}"),
                    format!("the child died with signal {sig} at stage {} (3 = executing the probe); allowed={allowed}\nlayout {l:?}\nprobe {p:?}", sh.stage),
                )
            }
        } else {
            Verdict::Inconclusive("child neither exited nor was signalled".into())
        };
        (v, allowed, near)
    }
}

// ---- SIGILL (trap) handling for C11 ----------------------------------------------------------

struct TrapCtx {
    mem: *const Mem,
    before: Vec<u8>,
}
static mut TRAP: *mut TrapCtx = std::ptr::null_mut();

unsafe fn install_trap_handler(mem: &Mem, l: &Layout, _p: &Probe) {
    // pre-image as the probe will see it (child_probe fills with the same deterministic pattern)
    mem.fill(l);
    let ctx = Box::new(TrapCtx { mem: mem as *const Mem, before: mem.snapshot() });
    TRAP = Box::into_raw(ctx);
    let mut sa: libc::sigaction = std::mem::zeroed();
    sa.sa_sigaction = on_trap as usize;
    sa.sa_flags = libc::SA_SIGINFO;
    libc::sigaction(libc::SIGILL, &sa, std::ptr::null_mut());
}

extern "C" fn on_trap(_sig: i32, _info: *mut libc::siginfo_t, _ctx: *mut libc::c_void) {
    unsafe {
        let t = &*TRAP;
        let mem = &*t.mem;
        let sh = &mut *mem.shared;
        let after = mem.snapshot();
        if sh.stage != 3 {
            set_fail(sh, &format!("SIG cranelift:sigill-outside-execution\nSIGILL at stage {}", sh.stage));
            libc::_exit(42);
        }
        if sh.allowed != 0 {
            set_fail(sh, "SIG cranelift:trap-on-allowed-access\nthe program trapped although the access is wholly inside one region");
            libc::_exit(42);
        }
        if let Some(i) = after.iter().zip(t.before.iter()).position(|(a, b)| a != b) {
            set_fail(sh, &format!("SIG cranelift:trapped-access-changed-memory\nbyte {} of arena {} changed from {:#x} to {:#x} although the access trapped", i % PAGE, i / PAGE, t.before[i], after[i]));
            libc::_exit(42);
        }
        libc::_exit(41);
    }
}

// ---- drivers ---------------------------------------------------------------------------------

fn case_json(l: &Layout, p: &Probe) -> Value {
    json!({
        "layout": {"pkt_len": l.pkt_len, "pkt_at_end": l.pkt_at_end, "mbuff_len": l.mbuff_len, "mbuff_at_end": l.mbuff_at_end, "ranges": l.ranges, "fill": l.fill, "mbuff_gap": l.mbuff_gap, "cover": l.cover, "vm": l.vm, "enclose": l.enclose},
        "probe": {
            "kind": format!("{:?}", p.kind), "width": p.width, "split": p.split, "val": p.val.to_string(), "prime": p.prime, "rebase": p.rebase, "move_r10": p.move_r10, "warm": p.warm.iter().map(|(a, b)| json!([a, b])).collect::<Vec<_>>(),
            "target": match &p.target {
                Target::Edge { region, end, delta } => json!({"edge": [region, end, delta]}),
                Target::Stack { delta } => json!({"stack": delta}),
                Target::Abs(a) => json!({"abs": a.to_string()}),
                Target::Wrap { back, off } => json!({"wrap": [back, off]}),
            }
        }
    })
}

fn case_from_json(v: &Value) -> Option<(Layout, Probe)> {
    let lj = &v["layout"];
    let l = Layout {
        pkt_len: lj["pkt_len"].as_u64()? as u8,
        pkt_at_end: lj["pkt_at_end"].as_bool()?,
        mbuff_len: lj["mbuff_len"].as_u64()? as u8,
        mbuff_at_end: lj["mbuff_at_end"].as_bool()?,
        ranges: lj["ranges"].as_array()?.iter().map(|r| (r[0].as_u64().unwrap_or(0) as u8, r[1].as_u64().unwrap_or(1) as u8, r[2].as_u64().unwrap_or(0) as u8)).collect(),
        fill: lj["fill"].as_u64()? as u8,
        mbuff_gap: lj["mbuff_gap"].as_u64().unwrap_or(0) as u8,
        cover: lj["cover"].as_u64().unwrap_or(0) as u8,
        vm: lj["vm"].as_u64().unwrap_or(0) as u8,
        enclose: lj["enclose"].as_u64().unwrap_or(0) as u8,
    };
    let pj = &v["probe"];
    let kind = match pj["kind"].as_str()? {
        "Ldx" => Kind2::Ldx,
        "St" => Kind2::St,
        "Stx" => Kind2::Stx,
        "Xadd" => Kind2::Xadd,
        "LdAbs" => Kind2::LdAbs,
        _ => Kind2::LdInd,
    };
    let t = &pj["target"];
    let target = if let Some(e) = t["edge"].as_array() {
        Target::Edge { region: e[0].as_u64()? as u8, end: e[1].as_bool()?, delta: e[2].as_i64()? as i8 }
    } else if let Some(d) = t["stack"].as_i64() {
        Target::Stack { delta: d as i16 }
    } else if let Some(a) = t["abs"].as_str() {
        Target::Abs(a.parse().ok()?)
    } else {
        let w = t["wrap"].as_array()?;
        Target::Wrap { back: w[0].as_u64()? as u8, off: w[1].as_u64()? as u8 }
    };
    Some((l, Probe { kind, width: pj["width"].as_u64()? as u8, target, split: pj["split"].as_i64()? as i16, val: pj["val"].as_str()?.parse().ok()?, prime: pj["prime"].as_u64().unwrap_or(0) as u8, rebase: pj["rebase"].as_u64().unwrap_or(0) as u8, move_r10: pj["move_r10"].as_i64().unwrap_or(0) as i8, warm: pj["warm"].as_array().map(|a| a.iter().map(|x| (x[0].as_u64().unwrap_or(0) as u8, x[1].as_u64().unwrap_or(0) as u8)).collect()).unwrap_or_default() }))
}

fn account(st: &mut Stats, l: &Layout, p: &Probe, allowed: bool, near: bool, v: &Verdict) {
    st.eval();
    if matches!(v, Verdict::Discard(_)) {
        return;
    }
    let region = match &p.target {
        Target::Edge { region, .. } => match *region as usize % (2 + l.ranges.len() + (l.cover & 1 != 0 && !l.ranges.is_empty()) as usize + (l.enclose & 1 != 0 && l.pkt_len > 0) as usize) {
            0 => {
                if l.pkt_len == 0 {
                    "empty-packet"
                } else {
                    "packet"
                }
            }
            1 => {
                if l.mbuff_len == 0 {
                    "absent-mbuff"
                } else {
                    "mbuff"
                }
            }
            _ => "registered-range",
        },
        Target::Stack { .. } => "stack",
        Target::Abs(_) => "absolute",
        Target::Wrap { .. } => "wrap-around",
    };
    st.class(&format!("{region}:{}", if allowed { "allowed" } else { "refused" }));
    st.class(&format!("{:?}/{}", p.kind, p.width));
    st.class(["vm:metadata", "vm:raw", "vm:no-data"][l.vm as usize % 3]);
    if l.enclose & 1 != 0 && l.pkt_len > 0 {
        st.class(if allowed { "registered-range-encloses-packet:allowed" } else { "registered-range-encloses-packet:refused" });
    }
    if l.cover & 1 != 0 && l.ranges.len() >= 2 {
        st.class(&format!("covering-range-over->=2-ranges:registered-{}:{}", ["last", "first", "in-reverse", "second"][((l.cover >> 5) & 3) as usize], if allowed { "allowed" } else { "refused" }));
    }
    if p.move_r10 != 0 && p.rebase & 15 == 0 && !matches!(p.kind, Kind2::LdAbs | Kind2::LdInd) && !matches!(p.target, Target::Wrap { .. }) {
        st.class(if allowed { "r10-moved-before-the-access:allowed" } else { "r10-moved-before-the-access:refused" });
    }
    if p.rebase & 15 != 0 && !matches!(p.kind, Kind2::LdAbs | Kind2::LdInd) && !matches!(p.target, Target::Stack { .. } | Target::Wrap { .. }) {
        st.class(&format!("base-register-redefined-by-{}:{}", ["", "lddw", "mov", "add", "stack-reload", "helper-call", "ldabs"][(p.rebase & 15) as usize % 7], if allowed { "allowed" } else { "refused" }));
    }
    if !p.warm.is_empty() && !matches!(p.kind, Kind2::LdAbs | Kind2::LdInd) {
        st.class(if allowed { "after-warm-up-loads:allowed" } else { "after-warm-up-loads:refused" });
        if l.mbuff_gap > 0 && l.pkt_len > 0 && l.mbuff_len > 0 && !allowed {
            st.class("after-warm-up-loads:refused:adjacent-regions");
        }
    }
    if near {
        st.nontrivial(fnv_str(&format!("{l:?}{p:?}")));
    }
    st.sample(4, || case_json(l, p));
}

fn drive(ctx: &Ctx, eng: Eng, quick: u64, thorough: u64) {
    let mem = RefCell::new(Mem::new());
    ctx.shrink_iters.set(2000);
    let cases = ctx.share(ctx.tier.pick(quick, thorough));
    ctx.search("probes", "probe", cases, case_strategy(eng == Eng::Interp, eng == Eng::Cranelift), |(l, p), want_case| {
        let (v, allowed, near) = run_probe(&mem.borrow(), l, p, eng);
        if !want_case {
            let mut st = ctx.stats();
            if !st.is_frozen() {
                account(&mut st, l, p, allowed, near, &v);
            }
        }
        (v, if want_case { case_json(l, p) } else { Value::Null })
    });
    if ctx.tier == Tier::Thorough {
        // exhaustive window: every (region boundary, delta, kind, width) for fixed layouts
        let layouts = [
            Layout { pkt_len: 17, pkt_at_end: true, mbuff_len: 24, mbuff_at_end: false, ranges: vec![(3, 5, 0), (200, 32, 3)], fill: 7, mbuff_gap: 0, cover: 0, vm: 0, enclose: 0 },
            Layout { pkt_len: 0, pkt_at_end: true, mbuff_len: 0, mbuff_at_end: false, ranges: vec![(9, 1, 0)], fill: 9, mbuff_gap: 0, cover: 0, vm: 0, enclose: 0 },
            Layout { pkt_len: 64, pkt_at_end: false, mbuff_len: 8, mbuff_at_end: true, ranges: vec![], fill: 1, mbuff_gap: 3, cover: 0, vm: 0, enclose: 0 },
            Layout { pkt_len: 1, pkt_at_end: true, mbuff_len: 64, mbuff_at_end: true, ranges: vec![(77, 8, 0), (1, 9, 1), (130, 16, 7)], fill: 3, mbuff_gap: 1, cover: 0x2b, vm: 0, enclose: 0x2d },
        ];
        let kinds = [Kind2::Ldx, Kind2::St, Kind2::Stx, Kind2::Xadd, Kind2::LdAbs, Kind2::LdInd];
        let mut n = 0u64;
        let mut count = 0u64;
        'outer: for l in layouts.iter() {
            let nreg = if eng == Eng::Interp { 2 + l.ranges.len() } else { 2 };
            let l = if eng == Eng::Interp { l.clone() } else { Layout { ranges: vec![], enclose: 0, cover: 0, ..l.clone() } };
            for region in 0..nreg as u8 {
                for end in [false, true] {
                    for delta in -9i8..=9 {
                        for kind in kinds {
                            for width in [1u8, 2, 4, 8] {
                                n += 1;
                                if n % ctx.nworkers as u64 != ctx.worker as u64 {
                                    continue;
                                }
                                let p = Probe { kind, width, target: Target::Edge { region, end, delta }, split: (n % 7) as i16 * 3 - 9, val: 0x0102_0304_0506_0708u64.wrapping_mul(n | 1), prime: if n % 3 == 0 { (n % 8) as u8 } else { 0 }, warm: vec![], rebase: 0, move_r10: 0 };
                                let (v, allowed, near) = run_probe(&mem.borrow(), &l, &p, eng);
                                count += 1;
                                let fail = v.is_fail();
                                {
                                    let mut st = ctx.stats();
                                    account(&mut st, &l, &p, allowed, near, &v);
                                    st.class("exhaustive-window");
                                }
                                if ctx.enumerate_case(v, "probe", || case_json(&l, &p)) && fail {
                                    break 'outer;
                                }
                            }
                        }
                    }
                }
            }
            // and the stack window
            for delta in -522i16..=9 {
                for kind in [Kind2::Ldx, Kind2::St, Kind2::Stx, Kind2::Xadd] {
                    for width in [1u8, 2, 4, 8] {
                        n += 1;
                        if n % ctx.nworkers as u64 != ctx.worker as u64 || (delta > -500 && delta < -12 && n % 8 != 0) {
                            continue;
                        }
                        let p = Probe { kind, width, target: Target::Stack { delta }, split: (n % 5) as i16 * 4 - 8, val: n, prime: 0, warm: vec![], rebase: 0, move_r10: 0 };
                        let (v, allowed, near) = run_probe(&mem.borrow(), &l, &p, eng);
                        count += 1;
                        let fail = v.is_fail();
                        {
                            let mut st = ctx.stats();
                            account(&mut st, &l, &p, allowed, near, &v);
                        }
                        if ctx.enumerate_case(v, "probe", || case_json(&l, &p)) && fail {
                            break 'outer;
                        }
                    }
                }
            }
        }
        ctx.stats().extra.insert("exhaustive_window_probes".into(), json!(count));
    }
}

fn run02(ctx: &Ctx) {
    drive(ctx, Eng::Interp, 200_000, 4_000_000);
    empty_packet_probes(ctx, Eng::Interp);
}

fn run11(ctx: &Ctx) {
    drive(ctx, Eng::Cranelift, 32_000, 640_000);
    empty_packet_probes(ctx, Eng::Cranelift);
}

// ---- packet loads on an empty packet, on every VM struct that takes a packet ------------------
//
// The layouts above have no fixed-metadata VM (an access near its stack may land in the VM's own
// heap buffer, which the address oracle cannot see). A packet load on an EMPTY packet needs no
// address oracle: no byte of it lies inside any region, so the interpreter must return Err and
// Cranelift must trap - whether the empty slice is the dangling `&mut []` (address 1) or an
// empty slice at a real, mapped address.

/// (vm 0 raw / 1 metadata / 2 fixed-metadata, dangling slice?, ldind?, width, immediate)
type EmptyProbe = (u8, bool, bool, u8, u32);

fn empty_probe_prog(p: &EmptyProbe) -> Vec<u8> {
    let (_, _, ind, w, imm) = *p;
    let mut out = vec![];
    if ind {
        out.push(Insn::new(alu_opc(true, ALU_MOV, false), 3, 0, 0, (imm / 2) as i32));
        out.push(Insn::new(ldind_opc(w as usize), 0, 3, 0, (imm - imm / 2) as i32));
    } else {
        out.push(Insn::new(ldabs_opc(w as usize), 0, 0, 0, imm as i32));
    }
    out.push(Insn::new(EXIT, 0, 0, 0, 0));
    encode_prog(&out)
}

fn empty_probe_check(mem: &Mem, p: &EmptyProbe, eng: Eng) -> Verdict {
    use crate::runner::{Engine, VmKind};
    let (vm, dangling, _, _, _) = *p;
    let kind = match vm % 3 {
        0 => VmKind::Raw,
        1 => VmKind::Mbuff { data_off: 0, end_off: 8 },
        _ => VmKind::Fixed { data_off: 0x40, end_off: 0x50 },
    };
    let real = mem.pkt.data_start() as usize + 64;
    let r = super::fork_call(|| {
        let prog: &'static [u8] = Box::leak(empty_probe_prog(p).into_boxed_slice());
        let Ok(mut vm) = crate::vmx::AnyVm::new(kind, Some(prog)) else { return (5, 0) };
        if eng == Eng::Cranelift {
            match catch(std::panic::AssertUnwindSafe(|| vm.cranelift_compile())) {
                Ok(Ok(())) => {}
                Ok(Err(_)) => return (4, 0),
                Err(_) => return (3, 0),
            }
        }
        let pkt: &'static mut [u8] = if dangling { &mut [] } else { unsafe { std::slice::from_raw_parts_mut(real as *mut u8, 0) } };
        let mb: &'static mut [u8] = Box::leak(vec![0u8; 32].into_boxed_slice());
        let a = pkt.as_ptr() as u64;
        mb[..8].copy_from_slice(&a.to_le_bytes());
        mb[8..16].copy_from_slice(&a.to_le_bytes());
        let (pa, pl, ma) = (pkt.as_mut_ptr(), pkt.len(), mb.as_mut_ptr());
        match catch(std::panic::AssertUnwindSafe(|| unsafe {
            let pkt: &'static mut [u8] = std::slice::from_raw_parts_mut(pa, pl);
            let mb: &'static mut [u8] = std::slice::from_raw_parts_mut(ma, 32);
            vm.exec(if eng == Eng::Cranelift { Engine::Cranelift } else { Engine::Interp }, pkt, mb)
        })) {
            Ok(Ok(v)) => (1, v),
            Ok(Err(_)) => (2, 0),
            Err(_) => (3, 0),
        }
    });
    let what = || format!("{} VM, empty packet ({}), {}\n{}", kind.name(), if dangling { "the dangling slice &mut []" } else { "an empty slice at a mapped address" }, if eng == Eng::Cranelift { "Cranelift" } else { "interpreter" }, isa::listing(&empty_probe_prog(p), 4).join("\n"));
    match (eng, r) {
        (_, Err(14)) => Verdict::Inconclusive("empty-packet probe hit the watchdog".into()),
        (Eng::Cranelift, Err(4)) => Verdict::Pass,
        (Eng::Interp, Ok((2, _))) => Verdict::Pass,
        (Eng::Cranelift, Ok((1, v))) => Verdict::fail("cranelift:no-trap:empty-packet", format!("a packet load on an empty packet returned {v:#x} instead of trapping\n{}", what())),
        (Eng::Interp, Ok((1, v))) => Verdict::fail("interp:access-not-refused:empty-packet", format!("a packet load on an empty packet returned {v:#x} instead of an error\n{}", what())),
        (_, Ok((s, _))) => Verdict::fail(format!("{}:empty-packet:status-{s}", if eng == Eng::Cranelift { "cranelift" } else { "interp" }), format!("status {s} (2 Err, 3 panic, 4 compile error, 5 load refused)\n{}", what())),
        (_, Err(sig)) => Verdict::fail(format!("{}:empty-packet:signal-{sig}", if eng == Eng::Cranelift { "cranelift" } else { "interp" }), format!("the child died with signal {sig} (a Cranelift trap is signal 4)\n{}", what())),
    }
}

fn empty_probe_json(p: &EmptyProbe) -> Value {
    json!({"empty_packet_probe": [p.0, p.1, p.2, p.3, p.4]})
}

fn empty_probe_from_json(v: &Value) -> Option<EmptyProbe> {
    let a = v.get("empty_packet_probe")?.as_array()?;
    let w = a.get(3)?.as_u64()? as u8;
    if !matches!(w, 1 | 2 | 4 | 8) {
        return None;
    }
    Some((a.first()?.as_u64()? as u8, a.get(1)?.as_bool()?, a.get(2)?.as_bool()?, w, a.get(4)?.as_u64()? as u32))
}

fn empty_packet_probes(ctx: &Ctx, eng: Eng) {
    if ctx.worker != 0 {
        return;
    }
    let mem = Mem::new();
    for vm in 0..3u8 {
        for dangling in [true, false] {
            for ind in [false, true] {
                for w in [1u8, 2, 4, 8] {
                    for imm in [0u32, 1, 7, 8, 0x1000] {
                        let p: EmptyProbe = (vm, dangling, ind, w, imm);
                        let v = empty_probe_check(&mem, &p, eng);
                        {
                            let mut st = ctx.stats();
                            st.eval();
                            st.class(&format!("empty-packet-load:{}", ["raw", "metadata", "fixed-metadata"][vm as usize]));
                            st.distinct_by_construction += 1;
                        }
                        if ctx.enumerate_case(v, "probe", || empty_probe_json(&p)) {
                            return;
                        }
                    }
                }
            }
        }
    }
}

fn replay02(_ctx: &Ctx, _kind: &str, case: &Value) -> Verdict {
    if let Some(p) = empty_probe_from_json(case) {
        return empty_probe_check(&Mem::new(), &p, Eng::Interp);
    }
    match case_from_json(case) {
        Some((l, p)) => run_probe(&Mem::new(), &l, &p, Eng::Interp).0,
        None => Verdict::Discard("bad-replay"),
    }
}

fn replay11(_ctx: &Ctx, _kind: &str, case: &Value) -> Verdict {
    if let Some(p) = empty_probe_from_json(case) {
        return empty_probe_check(&Mem::new(), &p, Eng::Cranelift);
    }
    match case_from_json(case) {
        Some((l, p)) => run_probe(&Mem::new(), &l, &p, Eng::Cranelift).0,
        None => Verdict::Discard("bad-replay"),
    }
}
