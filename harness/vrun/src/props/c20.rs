//! C20 - behaviour is the same with and without the standard library.
//! The corpora of C13/C14 (texts), C06 (byte strings), C15 (instruction streams) and C01/C03
//! (model-defined programs + inputs) are evaluated by this binary (rbpf with std) and by
//! harness-nostd/vrun-nostd (rbpf with default features off); transcripts must agree line by line.

use super::{catch, PropDef};
use crate::asmref;
use crate::engine::*;
use crate::execcheck::model_run;
use crate::gen;
use crate::isa;
use crate::model::{MOut, Quirks};
use crate::runner::*;
use crate::soup;
use proptest::strategy::{Strategy, ValueTree};
use proptest::test_runner::{Config, RngAlgorithm, TestRng, TestRunner};
use serde_json::{json, Value};
use std::io::Write;
use std::process::{Command, Stdio};

pub fn def() -> PropDef {
    PropDef {
        info: PropInfo {
            id: "C20",
            rule: "corpus lines generated from the strategies of the other checks: A = assembly texts (C13 programs and C14 token soup), V = near-valid byte strings (C06), D = well-formed instruction streams (C15) and the near-valid byte strings of C06 cut to whole slots (a panic is an answer like any other), X = structured programs + inputs (C01/C03, helper-free), dense straight-line programs, and call-graph / helper-call programs (C07/C08) with registered helpers and a stack-usage calculator on each of the four VM kinds, helper-call programs that are compiled and run, then - after every helper id was re-registered with another function - compiled and run again on the same VM object (R lines), helper-free programs that are compiled and run, replaced by another program with set_program(), compiled and run again on the same VM object (R lines with a second program), and helper-call programs for which the no_std build's caller-supplied JIT memory is placed near the helper and on either side of the +-2^31 distances from it; the JIT only on runs the reference model classifies as defined, terminating and in bounds. Each line is evaluated in two builds of the crate: the default one (in this process, executions fork-isolated) and the no_std one (binary harness-nostd, JIT running from caller-supplied mmap'ed executable memory). Oracle: the two transcripts are equal line by line - assembler Ok(bytes)/Err (messages are documented to differ, only the kind is compared), verifier Ok/Err, disassembler entries field by field, interpreter Ok(value)+packet bytes / Err, JIT Ok(value)+packet bytes / compile error. Non-trivial = line whose default-build result is Ok with at least 2 instructions, or Err; distinct by hash of the line.",
            assumptions: &["the no_std build is linked into an ordinary std binary (only the crate's own feature set differs)", "Cranelift and the std-only helpers do not exist in the no_std build and are outside this property"],
        },
        run,
        replay,
        single_worker: false,
    }
}

fn hexs(b: &[u8]) -> String {
    if b.is_empty() {
        "-".into()
    } else {
        isa::hex(b)
    }
}

fn nostd_binary() -> std::path::PathBuf {
    verif_root().join("harness-nostd/target/verif/vrun-nostd")
}

fn vm_fields(vm: VmKind) -> (&'static str, usize, usize) {
    match vm {
        VmKind::NoData => ("nodata", 0, 8),
        VmKind::Raw => ("raw", 0, 8),
        VmKind::Mbuff { data_off, end_off } => ("mbuff", data_off, end_off),
        VmKind::Fixed { data_off, end_off } => ("fixed", data_off, end_off),
    }
}

fn x_line(case: &ExecCase, with_jit: bool) -> String {
    let (vm, d, e) = vm_fields(case.vm);
    let calc = match &case.calc {
        None => "-".to_string(),
        Some((t, d)) => format!("c:{d}:{}", t.iter().map(|(pc, s)| format!("{pc}={s}")).collect::<Vec<_>>().join(",")),
    };
    let helpers = if case.helpers.is_empty() { "-".to_string() } else { format!("h:{}", case.helpers.iter().map(|(id, p)| format!("{id}={p}")).collect::<Vec<_>>().join(",")) };
    format!(
        "X {vm} {d} {e} {} {} {} {} {} {} {} {calc} {helpers}",
        case.pkt_base_mod8(),
        case.mbuff_base_mod8(),
        case.budget,
        isa::hex(&case.prog),
        hexs(&case.pkt),
        hexs(&case.mbuff),
        if with_jit { "jit" } else { "nojit" }
    )
}

/// `<a>=<b>,<a>=<b>,...`
fn parse_pairs(s: &str) -> Vec<(u64, u64)> {
    s.split(',').filter_map(|kv| kv.split_once('=')).filter_map(|(a, b)| Some((a.parse().ok()?, b.parse().ok()?))).collect()
}

fn parse_x(line: &str) -> Option<(ExecCase, bool)> {
    let f: Vec<&str> = line.split(' ').collect();
    if f.len() < 11 {
        return None;
    }
    let d: usize = f[2].parse().ok()?;
    let e: usize = f[3].parse().ok()?;
    let vm = match f[1] {
        "nodata" => VmKind::NoData,
        "raw" => VmKind::Raw,
        "mbuff" => VmKind::Mbuff { data_off: d, end_off: e },
        _ => VmKind::Fixed { data_off: d, end_off: e },
    };
    let un = |s: &str| if s == "-" { vec![] } else { isa::unhex(s) };
    let mut c = ExecCase::new(vm, un(f[7]));
    c.pkt = un(f[8]);
    c.mbuff = un(f[9]);
    c.pkt_at_end = f[4] != "0" || c.pkt.len() % 8 == 0;
    c.mbuff_at_end = f[5] != "0";
    c.budget = f[6].parse().ok()?;
    if let Some(spec) = f.get(11).and_then(|x| x.strip_prefix("c:")) {
        let (d, t) = spec.split_once(':')?;
        c.calc = Some((parse_pairs(t).into_iter().map(|(pc, s)| (pc as usize, s as u16)).collect(), d.parse().ok()?));
    }
    if let Some(spec) = f.get(12).and_then(|x| x.strip_prefix("h:")) {
        c.helpers = parse_pairs(spec).into_iter().map(|(id, p)| (id as u32, p as u8)).collect();
    }
    Some((c, f[10] == "jit"))
}

/// Evaluate one corpus line with the default (std) build.
pub fn std_eval(runner: &mut Runner, line: &str) -> String {
    let f: Vec<&str> = line.split(' ').collect();
    let un = |s: &str| if s == "-" { vec![] } else { isa::unhex(s) };
    match f[0] {
        "A" => {
            let text = String::from_utf8_lossy(&un(f[1])).to_string();
            match catch(move || rbpf::assembler::assemble(&text)) {
                Err(_) => "panic".into(),
                Ok(Ok(b)) => format!("ok {}", hexs(&b)),
                Ok(Err(_)) => "err".into(),
            }
        }
        "V" => {
            let prog = un(f[1]);
            match catch(move || rbpf::EbpfVmMbuff::new(Some(&prog)).is_ok()) {
                Err(_) => "panic".into(),
                Ok(true) => "ok".into(),
                Ok(false) => "err".into(),
            }
        }
        "D" => {
            let prog = un(f[1]);
            match catch(move || rbpf::disassembler::to_insn_vec(&prog)) {
                Err(_) => "panic".into(),
                Ok(v) => v.iter().map(|h| format!("{:x},{},{},{},{},{},{:x}", h.opc, h.name, h.desc.replace(' ', "_"), h.dst, h.src, h.off, h.imm)).collect::<Vec<_>>().join(";"),
            }
        }
        "R" => {
            // compile, run, re-register every helper id with the next pool function, compile again,
            // run again - on one VM object
            let x_form = format!("X{}", &line[1..]);
            let Some((case, _)) = parse_x(&x_form) else { return "?".into() };
            // optional: another program, loaded with set_program() before the second compilation
            let prog2: Option<&'static [u8]> = line.split(' ').nth(13).and_then(|x| x.strip_prefix("p2:")).map(|h| &*Box::leak(isa::unhex(h).into_boxed_slice()));
            let r = super::fork_call(|| {
                let prog: &'static [u8] = Box::leak(case.prog.clone().into_boxed_slice());
                let pkt: &'static mut [u8] = Box::leak(case.pkt.clone().into_boxed_slice());
                let mb: &'static mut [u8] = Box::leak(case.mbuff.clone().into_boxed_slice());
                let paddr = pkt.as_ptr() as u64;
                if let VmKind::Mbuff { data_off, end_off } = case.vm {
                    if data_off + 8 <= mb.len() {
                        mb[data_off..data_off + 8].copy_from_slice(&paddr.to_le_bytes());
                    }
                    if end_off + 8 <= mb.len() {
                        mb[end_off..end_off + 8].copy_from_slice(&(paddr + pkt.len() as u64).to_le_bytes());
                    }
                }
                let Ok(mut vm) = crate::vmx::AnyVm::new(case.vm, Some(prog)) else { return (2, 0) };
                let offs = match case.vm {
                    VmKind::Fixed { data_off, end_off } => (data_off, end_off),
                    _ => (0, 0),
                };
                let mut vals = [0u64; 2];
                for round in 0..2u8 {
                    if round == 1 {
                        if let Some(p2) = prog2 {
                            if vm.set_program(p2, offs).is_err() {
                                return (7, 0);
                            }
                        }
                    }
                    for (id, p) in &case.helpers {
                        if vm.register_helper(*id, pool_fn((*p + round) % 8)).is_err() {
                            return (3, 0);
                        }
                    }
                    if vm.jit_compile().is_err() {
                        return (4, round as u64);
                    }
                    let (p2, m2): (&'static mut [u8], &'static mut [u8]) = unsafe { (std::slice::from_raw_parts_mut(pkt.as_mut_ptr(), pkt.len()), std::slice::from_raw_parts_mut(mb.as_mut_ptr(), mb.len())) };
                    match vm.exec(Engine::Jit, p2, m2) {
                        Ok(v) => vals[round as usize] = v,
                        Err(_) => return (5, round as u64),
                    }
                }
                (1, vals[0].wrapping_mul(0x9e37_79b9_7f4a_7c15) ^ vals[1])
            });
            match r {
                Ok((1, v)) => format!("r:ok,{v:x}"),
                Ok((code, at)) => format!("r:err{code},{at}"),
                Err(sig) => format!("r:signal{sig}"),
            }
        }
        "X" => {
            let Some((case, with_jit)) = parse_x(line) else { return "?".into() };
            let engines: &[Engine] = if with_jit { &[Engine::Interp, Engine::Jit] } else { &[Engine::Interp] };
            let res = runner.run(&case, engines);
            let mut out = String::new();
            for (k, tag) in ["i", "j"].iter().enumerate() {
                if k == 1 && !with_jit {
                    out.push_str(" j:skip");
                    continue;
                }
                let r = &res[k];
                out.push_str(&match &r.outcome {
                    Outcome::Ok(v) => format!(" {tag}:ok,{v:x},{}", hexs(&r.pkt)),
                    Outcome::Err(_) => format!(" {tag}:err"),
                    Outcome::VerifierErr(_) => format!(" {tag}:err"),
                    Outcome::CompileErr(_) => format!(" {tag}:cerr"),
                    Outcome::Panic(_) | Outcome::CompilePanic(_) => format!(" {tag}:panic"),
                    other => format!(" {tag}:{}", crate::execcheck::outcome_sig(other)),
                });
            }
            out.trim_start().to_string()
        }
        _ => "?".into(),
    }
}

/// Run the no_std binary over the lines.
pub fn nostd_eval(lines: &[String]) -> Result<Vec<String>, String> {
    let bin = nostd_binary();
    let mut child = Command::new(&bin).stdin(Stdio::piped()).stdout(Stdio::piped()).stderr(Stdio::null()).spawn().map_err(|e| format!("cannot start {}: {e}", bin.display()))?;
    let mut stdin = child.stdin.take().unwrap();
    let input = lines.join("\n") + "\n";
    let writer = std::thread::spawn(move || {
        let _ = stdin.write_all(input.as_bytes());
    });
    let out = child.wait_with_output().map_err(|e| e.to_string())?;
    let _ = writer.join();
    Ok(String::from_utf8_lossy(&out.stdout).lines().map(String::from).collect())
}

fn sample<S: Strategy>(s: &S, runner: &mut TestRunner) -> S::Value {
    s.new_tree(runner).expect("strategy").current()
}

fn compare(ctx: &Ctx, lines: &[String], std_out: &[String], no_out: &[String]) -> bool {
    for (k, line) in lines.iter().enumerate() {
        let a = &std_out[k];
        let b = no_out.get(k).cloned().unwrap_or_else(|| "<no output: the no_std binary stopped>".to_string());
        {
            let mut st = ctx.stats();
            st.eval();
            let kind = &line[..1];
            st.class(&format!("line:{kind}"));
            let ok = a.starts_with("ok") || a.starts_with("i:ok") || a.starts_with("r:ok") || (kind == "D" && a != "panic");
            st.class(&format!("{kind}:{}", if ok { "ok" } else { "err" }));
            if !ok || line.len() > 40 {
                st.nontrivial(fnv_str(line));
            }
            if st.samples.iter().filter(|s| s["line"].as_str().map(|l| l.starts_with(kind)).unwrap_or(false)).count() == 0 {
                st.sample(8, || json!({"line": if line.len() > 300 { format!("{}...", &line[..300]) } else { line.clone() }, "std": if a.len() > 200 { format!("{}...", &a[..200]) } else { a.clone() }}));
            }
        }
        if *a != b {
            let sig = format!("std-vs-nostd:{}", &line[..1]);
            let decoded = if line.starts_with("A ") { format!(" (text {:?})", String::from_utf8_lossy(&isa::unhex(&line[2..]))) } else { String::new() };
            let l2 = line.clone();
            ctx.enumerate_case(Verdict::fail(sig, format!("corpus line {}{decoded}\n default build: {a}\n no_std build:  {b}", if line.len() > 600 { &line[..600] } else { line })), "line", || json!({"line": l2}));
            return false;
        }
    }
    true
}

fn run(ctx: &Ctx) {
    if !nostd_binary().exists() {
        ctx.stats().inconclusive.push(format!("{} is missing (run ./check --setup)", nostd_binary().display()));
        return;
    }
    let mut seed_bytes = [0u8; 32];
    let mut s = ctx.worker_seed("corpus");
    for chunk in seed_bytes.chunks_mut(8) {
        s = splitmix(s);
        chunk.copy_from_slice(&s.to_le_bytes());
    }
    let mut tr = TestRunner::new_with_rng(Config::default(), TestRng::from_seed(RngAlgorithm::ChaCha, &seed_bytes));
    let mut runner = Runner::new();
    let scale = ctx.tier.pick(3u64, 40);
    let mut lines: Vec<String> = Vec::new();
    // A: texts
    let texts = asmref::program(6);
    for _ in 0..ctx.share(12_000 * scale) {
        lines.push(format!("A {}", hexs(asmref::render(&sample(&texts, &mut tr)).as_bytes())));
    }
    let soup_text = super::c14::token_soup_strategy();
    for _ in 0..ctx.share(8_000 * scale) {
        lines.push(format!("A {}", hexs(sample(&soup_text, &mut tr).as_bytes())));
    }
    // V: near-valid byte strings
    let sp = soup::soup(24);
    for _ in 0..ctx.share(10_000 * scale) {
        let b = soup::lower(&sample(&sp, &mut tr));
        if b.is_empty() {
            continue;
        }
        lines.push(format!("V {}", isa::hex(&b)));
    }
    // D: instruction streams
    let st = super::c15::stream();
    for _ in 0..ctx.share(8_000 * scale) {
        let (s, canon) = sample(&st, &mut tr);
        lines.push(format!("D {}", isa::hex(&super::c15::lower(&s, canon))));
    }
    // D on the near-valid byte strings of C06 as well: unsupported opcodes and broken wide loads
    // included - whatever the default build answers (entries, or a panic), the other must too
    for _ in 0..ctx.share(4_000 * scale) {
        let mut b = soup::lower(&sample(&sp, &mut tr));
        b.truncate(b.len() / 8 * 8);
        if b.is_empty() {
            continue;
        }
        ctx.stats().class("D:near-valid-byte-string");
        lines.push(format!("D {}", isa::hex(&b)));
    }
    // X: programs + inputs
    let pg = gen::program(true, false);
    for _ in 0..ctx.share(4_000 * scale) {
        let mut case = gen::lower(&sample(&pg, &mut tr));
        case.helpers.clear();
        let m = model_run(&case, 0x1000, Quirks::default(), 200_000);
        let with_jit = matches!(m.out, MOut::Ret(_));
        case.budget = 100 * m.trace.steps.max(100) + 10_000;
        lines.push(x_line(&case, with_jit));
    }
    // dense straight-line programs (worst-case code size at every length; the two builds size
    // their code buffers in different code paths)
    let dg = gen::dense_alu(300);
    for _ in 0..ctx.share(1_500 * scale) {
        let mut case = sample(&dg, &mut tr);
        case.budget = 100_000;
        lines.push(x_line(&case, true));
    }
    // call graphs with a stack-usage calculator and helper calls inside functions (C07), and
    // helper-call programs (C08), on each of the four VM kinds: every VM type hands its helpers,
    // its calculator and its memory layout to the JIT in build-specific code
    let vary_vm = |case: &mut ExecCase, i: u64| {
        case.pkt = (0..16u8).collect();
        case.mbuff = vec![0; 32];
        case.vm = match i % 4 {
            0 => VmKind::NoData,
            1 => VmKind::Raw,
            2 => VmKind::Mbuff { data_off: 8, end_off: 16 },
            _ => VmKind::Fixed { data_off: 0x40, end_off: 0x50 },
        };
        if matches!(case.vm, VmKind::NoData) {
            case.pkt.clear();
        }
    };
    let cg = super::c07::cprog();
    let hg = super::c08::hprog(4);
    for i in 0..ctx.share(2_400 * scale) {
        let mut case = if i % 3 == 2 { super::c08::lower(&sample(&hg, &mut tr)) } else { super::c07::lower(&sample(&cg, &mut tr)) };
        if case.prog.len() > 8 * 3000 {
            continue;
        }
        vary_vm(&mut case, i / 3);
        let m = model_run(&case, 0x1000, Quirks::default(), 200_000);
        // (on the fixed-metadata VM a stack overrun may or may not land in the VM's own heap
        // buffer, depending on the allocator: only runs that return a value are compared)
        if !matches!(m.out, MOut::Ret(_) | MOut::Err(_)) || (matches!(case.vm, VmKind::Fixed { .. }) && !matches!(m.out, MOut::Ret(_))) {
            // e.g. frames made to overlap by the calculator: the result may depend on addresses,
            // which differ between the two processes
            *ctx.stats().discarded.entry("X-calls:model-undefined".into()).or_insert(0) += 1;
            continue;
        }
        let with_jit = matches!(m.out, MOut::Ret(_));
        case.budget = 100 * m.trace.steps.max(100) + 10_000;
        let mut st = ctx.stats();
        st.class(&format!("X-calls:{}:{}", vm_fields(case.vm).0, if with_jit { "jit" } else { "interpreter-only" }));
        if case.calc.is_some() && m.trace.local_calls > 0 {
            st.class(&format!("X-calls:{}:calculator+local-call", vm_fields(case.vm).0));
        }
        drop(st);
        lines.push(x_line(&case, with_jit));
    }
    // second compilation on the same VM object after every helper id was re-registered with
    // another function (both builds must then run the new functions)
    for i in 0..ctx.share(600 * scale) {
        let mut case = super::c08::lower(&sample(&hg, &mut tr));
        if case.prog.len() > 8 * 3000 || case.helpers.is_empty() {
            continue;
        }
        vary_vm(&mut case, i);
        let m = model_run(&case, 0x1000, Quirks::default(), 200_000);
        if !matches!(m.out, MOut::Ret(_)) || m.trace.helper_calls == 0 {
            continue;
        }
        ctx.stats().class("R:compile-run-rebind-compile-run");
        let x = x_line(&case, true);
        lines.push(format!("R{}", &x[1..]));
    }
    // compile and run, load ANOTHER program with set_program(), compile and run again on the same
    // VM object - helper-free programs, no calculator (both builds must then run the new program)
    {
        let dg = gen::dense_alu(40);
        for i in 0..ctx.share(400 * scale) {
            let mut case = sample(&dg, &mut tr);
            let other = sample(&dg, &mut tr);
            if case.prog == other.prog {
                continue;
            }
            vary_vm(&mut case, i);
            case.budget = 1_000_000;
            ctx.stats().class(&format!("R:compile-run-reload-compile-run:{}", vm_fields(case.vm).0));
            let x = x_line(&case, true);
            lines.push(format!("R{} p2:{}", &x[1..], isa::hex(&other.prog)));
        }
    }
    // where the caller-supplied JIT memory of the no_std build lies relative to the helpers: near
    // them, and on either side of the 2^31 distances at which a rel32 call stops reaching - with
    // the helper call at code offsets from a few bytes to several pages
    if ctx.worker == 0 {
        for pool_idx in 0..8u8 {
            for fill in [0usize, 300, 1200, 3000] {
                for place in ["a".to_string(), format!("n{pool_idx}"), format!("p0:{pool_idx}"), format!("p1:{pool_idx}"), format!("p2:{pool_idx}"), format!("m0:{pool_idx}"), format!("m1:{pool_idx}")] {
                    let mut insns: Vec<isa::Insn> = Vec::new();
                    for _ in 0..fill {
                        insns.push(isa::Insn::new(isa::alu_opc(true, isa::ALU_MOV, false), 6, 0, 0, 1));
                    }
                    for r in 1..=5u8 {
                        insns.push(isa::Insn::new(isa::alu_opc(true, isa::ALU_MOV, false), r, 0, 0, 10 * r as i32 + pool_idx as i32));
                    }
                    insns.push(isa::Insn::new(isa::CALL, 0, 0, 0, 1));
                    insns.push(isa::Insn::new(isa::EXIT, 0, 0, 0, 0));
                    let mut case = ExecCase::new(VmKind::NoData, isa::encode_prog(&insns));
                    case.helpers = vec![(1, pool_idx)];
                    case.budget = 100_000;
                    ctx.stats().class(&format!("X-placement:{}", &place[..1]));
                    lines.push(format!("{} {place}", x_line(&case, true)));
                }
            }
        }
    }
    // evaluate in chunks so that a failure is reported early
    for chunk in lines.chunks(2000) {
        let std_out: Vec<String> = chunk.iter().map(|l| std_eval(&mut runner, l)).collect();
        let no_out = match nostd_eval(chunk) {
            Ok(o) => o,
            Err(e) => {
                ctx.stats().inconclusive.push(e);
                return;
            }
        };
        if !compare(ctx, chunk, &std_out, &no_out) {
            return;
        }
    }
}

fn replay(_ctx: &Ctx, _kind: &str, case: &Value) -> Verdict {
    let Some(line) = case["line"].as_str() else { return Verdict::Discard("bad-replay") };
    let a = std_eval(&mut Runner::new(), line);
    match nostd_eval(&[line.to_string()]) {
        Err(e) => Verdict::Inconclusive(e),
        Ok(o) => {
            let b = o.first().cloned().unwrap_or_else(|| "<no output>".into());
            if a == b {
                Verdict::Pass
            } else {
                Verdict::fail(format!("std-vs-nostd:{}", &line[..1]), format!("default build: {a}\nno_std build:  {b}"))
            }
        }
    }
}
