//! C09 - each VM kind presents the documented execution context to the program.

use super::{catch, PropDef};
use crate::engine::*;
use crate::isa::{self, *};
use crate::runner::{Arena, Engine, VmKind, PAGE};
use crate::vmx::AnyVm;
use proptest::prelude::*;
use serde_json::{json, Value};
use std::cell::RefCell;

pub fn def() -> PropDef {
    PropDef {
        info: PropInfo {
            id: "C09",
            rule: "case = VM kind (no-data, raw, metadata, fixed-metadata with a generated pair of non-overlapping offsets from {0,8,16,0x40,0x50,4088,32752,100000,1 MiB} in either order / adjacent / far apart) x a sequence of 1-4 packets of lengths {0,1,7,8,9,64,1500,random}, each at an address of its own or (half of the later ones) at the same start address / the same end address as its predecessor with another length x a generated schedule of (engine, packet) executions over interpreter, x86-64 JIT and Cranelift on the SAME VM object; for the fixed-metadata VM, in half of the cases, the probe is re-loaded half way through with set_program() and another pair of offsets (swapped / only the lower one moved / both moved); after a 'lower one moved' reload the vacated slot must read 0, as on a fresh VM. Probe programs: r1 at entry; r10 at entry; byte stores/loads at [r10-1] and [r10-512]; ldabsb/ldindb of the first packet byte; for the fixed-metadata VM *(r1+data_off), and *(r1+end_off) - *(r1+data_off), each read by the program itself and, in load-free programs, by a registered helper that is handed r1; for raw / metadata VMs the word a helper reads at *(r1). Oracle from the real addresses: r1 = metadata buffer / packet / 0 as documented; the stack region is disjoint from packet and metadata; packet loads return packet bytes; fixed VM: start pointer == address of the first packet byte when the packet is non-empty and end - start == length always, on every execution of the schedule and identically on the three engines. Non-trivial = fixed-metadata case with a non-empty packet, or a second-or-later execution; distinct by hash of (kind, offsets, lengths, schedule).",
            assumptions: &["for an empty packet only end - start == 0 is required of the fixed-metadata VM (DESIGN 6.2)", "out-of-stack accesses are covered by C02/C11, not here"],
        },
        run,
        replay,
        single_worker: false,
    }
}

#[derive(Clone, Debug)]
pub struct C9Case {
    kind: u8,
    data_off: u32,
    end_off: u32,
    pkts: Vec<(u16, u8)>,
    mbuff_len: u8,
    /// (engine index, packet index) executions, in order
    schedule: Vec<(u8, u8)>,
    /// fixed-metadata VM only, 0 = none: half way through the schedule the probe is re-loaded
    /// with set_program() and another pair of offsets - 1: the two offsets swapped, 2: only the
    /// lower one moved (same buffer size), 3: both moved
    reload: u8,
}

/// The pair of offsets in force after the reload.
fn reloaded_offsets(c: &C9Case) -> (u32, u32) {
    let (d, e) = (c.data_off, c.end_off);
    match c.reload % 4 {
        1 => (e, d),
        2 => {
            // move the lower one to another slot below the higher one (or just above 0)
            let (lo, hi) = (d.min(e), d.max(e));
            let nlo = if lo >= 8 { lo - 8 } else if hi >= lo + 16 { lo + 8 } else { lo };
            if d < e { (nlo, e) } else { (d, nlo) }
        }
        3 => (d + 24, e + 24),
        _ => (d, e),
    }
}

const OFFS: [u32; 9] = [0, 8, 16, 0x40, 0x50, 4088, 32752, 100_000, 1 << 20];

fn case() -> impl Strategy<Value = C9Case> {
    let len = prop_oneof![4 => prop::sample::select(vec![0u16, 1, 7, 8, 9, 64, 1500]), 2 => 0u16..1501];
    (0u8..4, 0usize..9, 0usize..9, prop::bool::weighted(0.3), prop::collection::vec((len, any::<u8>()), 1..5), 16u8..65, prop::collection::vec((0u8..3, any::<u8>()), 1..10), prop_oneof![1 => Just(0u8), 1 => 1u8..4])
        .prop_map(|(kind, a, b, adjacent, pkts, mbuff_len, schedule, reload)| {
            let data_off = OFFS[a];
            let mut end_off = OFFS[b];
            if adjacent {
                end_off = if b % 2 == 0 { data_off + 8 } else { data_off.saturating_sub(8) };
            }
            if (data_off as i64 - end_off as i64).abs() < 8 {
                end_off = data_off + 8 + (b as u32 % 3) * 8;
            }
            let n = pkts.len() as u8;
            let schedule = schedule.into_iter().map(|(e, p)| (e, p % n)).collect();
            C9Case { kind, data_off, end_off, pkts, mbuff_len, schedule, reload }
        })
}

#[repr(C)]
#[derive(Clone, Copy)]
struct Rec {
    status: u32,
    prog: u8,
    engine: u8,
    pkt: u8,
    _pad: u8,
    value: u64,
}

#[repr(C)]
struct Shared9 {
    stage: u32,
    n: u32,
    fixed_buf_len: u64,
    recs: [Rec; 160],
    msg_len: u32,
    msg: [u8; 300],
}

pub struct Mem9 {
    pkt: Arena,
    mbuff: Arena,
    shared: *mut Shared9,
}

impl Mem9 {
    pub fn new() -> Mem9 {
        unsafe {
            let size = std::mem::size_of::<Shared9>().div_ceil(PAGE) * PAGE;
            let p = libc::mmap(std::ptr::null_mut(), size, libc::PROT_READ | libc::PROT_WRITE, libc::MAP_ANONYMOUS | libc::MAP_SHARED, -1, 0);
            assert!(p != libc::MAP_FAILED);
            Mem9 { pkt: Arena::new(2, false), mbuff: Arena::new(1, false), shared: p as *mut Shared9 }
        }
    }
    fn pkt_addr(&self, c: &C9Case, i: usize) -> u64 {
        // four slots of 2048 bytes; odd slots end-aligned within the slot. A packet with an odd
        // fill byte is placed by the rule of its predecessor's slot: same start address (even
        // slot) or same end address (odd slot) as that packet, usually with another length. The
        // bytes are written before each execution.
        let len = c.pkts[i].0;
        let mut slot = i;
        while slot > 0 && c.pkts[slot].1 & 1 == 1 {
            slot -= 1;
        }
        let base = self.pkt.data_start() as u64 + slot as u64 * 2048;
        if slot % 2 == 1 {
            base + 2048 - len as u64
        } else {
            base + (slot as u64 * 3) % 8
        }
    }
    fn mbuff_addr(&self) -> u64 {
        self.mbuff.data_start() as u64
    }
}

fn vm_kind(c: &C9Case) -> VmKind {
    match c.kind % 4 {
        0 => VmKind::NoData,
        1 => VmKind::Raw,
        2 => VmKind::Mbuff { data_off: 0, end_off: 8 },
        _ => VmKind::Fixed { data_off: c.data_off as usize, end_off: c.end_off as usize },
    }
}

fn ld_at(out: &mut Vec<Insn>, dst: u8, off: u32) {
    // dst = *(u64*)(r1 + off), for any offset
    if off <= 32767 {
        out.push(Insn::new(ldx_opc(8), dst, 1, off as i16, 0));
    } else {
        out.push(Insn::new(alu_opc(true, ALU_MOV, true), 3, 1, 0, 0));
        out.push(Insn::new(alu_opc(true, ALU_ADD, false), 3, 0, 0, off as i32));
        out.push(Insn::new(ldx_opc(8), dst, 3, 0, 0));
    }
}

/// The probe programs of a case: (id, bytes).
fn programs(c: &C9Case) -> Vec<(u8, Vec<u8>)> {
    programs_with(c, c.data_off, c.end_off)
}

fn programs_with(c: &C9Case, data_off: u32, end_off: u32) -> Vec<(u8, Vec<u8>)> {
    // the slot that holds a packet pointer before a "lower offset moved" reload and nothing after it
    let vacated = if c.reload % 4 == 2 && reloaded_offsets(c) != (c.data_off, c.end_off) { Some(c.data_off.min(c.end_off)) } else { None };
    let c = &C9Case { data_off, end_off, ..c.clone() };
    let exit = Insn::new(EXIT, 0, 0, 0, 0);
    let mut v = Vec::new();
    v.push((0u8, encode_prog(&[Insn::new(alu_opc(true, ALU_MOV, true), 0, 1, 0, 0), exit])));
    v.push((1u8, encode_prog(&[Insn::new(alu_opc(true, ALU_MOV, true), 0, 10, 0, 0), exit])));
    v.push((
        2u8,
        encode_prog(&[
            Insn::new(st_opc(1), 10, 0, -1, 0x11),
            Insn::new(st_opc(1), 10, 0, -512, 0x22),
            Insn::new(ldx_opc(1), 0, 10, -1, 0),
            Insn::new(ldx_opc(1), 2, 10, -512, 0),
            Insn::new(alu_opc(true, ALU_LSH, false), 0, 0, 0, 8),
            Insn::new(alu_opc(true, ALU_OR, true), 0, 2, 0, 0),
            exit,
        ]),
    ));
    let kind = vm_kind(c);
    if !matches!(kind, VmKind::NoData) {
        v.push((3u8, encode_prog(&[Insn::new(ldabs_opc(1), 0, 0, 0, 0), exit])));
        v.push((4u8, encode_prog(&[Insn::new(alu_opc(true, ALU_MOV, false), 4, 0, 0, 0), Insn::new(ldind_opc(1), 0, 4, 0, 0), exit])));
    }
    if let VmKind::Fixed { .. } = kind {
        let mut p = Vec::new();
        ld_at(&mut p, 0, c.data_off);
        p.push(exit);
        v.push((5u8, encode_prog(&p)));
        let mut p = Vec::new();
        ld_at(&mut p, 0, c.end_off);
        ld_at(&mut p, 2, c.data_off);
        p.push(Insn::new(alu_opc(true, ALU_SUB, true), 0, 2, 0, 0));
        p.push(exit);
        v.push((6u8, encode_prog(&p)));
        // the same two observations by a helper that is handed the context pointer - the program
        // itself contains no load instruction
        let mov = |dst: u8, imm: u32| Insn::new(alu_opc(true, ALU_MOV, false), dst, 0, 0, imm as i32);
        let movr = |dst: u8, src: u8| Insn::new(alu_opc(true, ALU_MOV, true), dst, src, 0, 0);
        let call = Insn::new(CALL, 0, 0, 0, PEEK_ID as i32);
        v.push((7u8, encode_prog(&[mov(2, c.data_off), call, exit])));
        v.push((
            8u8,
            encode_prog(&[movr(7, 1), mov(2, c.end_off), call, movr(6, 0), movr(1, 7), mov(2, c.data_off), call, Insn::new(alu_opc(true, ALU_SUB, true), 6, 0, 0, 0), movr(0, 6), exit]),
        ));
    }
    if let (VmKind::Fixed { .. }, Some(slot)) = (kind, vacated) {
        // after the reload this slot is not one of the two offsets any more: a VM re-loaded with
        // other offsets must look like a fresh one there (zero), not show what an earlier
        // execution published
        let mut p = Vec::new();
        ld_at(&mut p, 0, slot);
        p.push(exit);
        v.push((10u8, encode_prog(&p)));
    }
    if matches!(kind, VmKind::Raw | VmKind::Mbuff { .. }) {
        // what a helper sees at *(r1): the first eight bytes of the packet / metadata buffer
        v.push((9u8, encode_prog(&[Insn::new(alu_opc(true, ALU_MOV, false), 2, 0, 0, 0), Insn::new(CALL, 0, 0, 0, PEEK_ID as i32), exit])));
    }
    v
}

const PEEK_ID: u32 = 7;

/// helper: the 64-bit word at a1 + a2
fn peek(a: u64, b: u64, _c: u64, _d: u64, _e: u64) -> u64 {
    unsafe { std::ptr::read_unaligned(a.wrapping_add(b) as *const u64) }
}

const ENGINES: [Engine; 3] = [Engine::Interp, Engine::Jit, Engine::Cranelift];

unsafe fn child(mem: &Mem9, c: &C9Case) {
    let sh = &mut *mem.shared;
    let kind = vm_kind(c);
    // packets
    let fill_pkt = |i: usize| {
        let (len, fill) = c.pkts[i];
        let a = mem.pkt_addr(c, i) as *mut u8;
        for k in 0..len as usize {
            *a.add(k) = fill.wrapping_add(k as u8).wrapping_mul(7) | 1;
        }
    };
    for i in 0..c.pkts.len() {
        fill_pkt(i);
    }
    // user metadata buffer with pointers for the first packet (only its address matters here)
    let mb = mem.mbuff_addr() as *mut u8;
    std::ptr::write_bytes(mb, 0x33, c.mbuff_len as usize);
    if let VmKind::Fixed { data_off, end_off } = kind {
        sh.fixed_buf_len = data_off.max(end_off) as u64 + 8;
    }
    let progs: Vec<(u8, &'static [u8])> = programs(c).into_iter().map(|(id, p)| (id, &*Box::leak(p.into_boxed_slice()))).collect();
    let mut n = 0usize;
    for (id, prog) in progs {
        sh.stage = 100 * id as u32;
        let mut vm = match AnyVm::new(kind, Some(prog)) {
            Ok(vm) => vm,
            Err(e) => {
                let m = format!("probe program {id} rejected: {e}");
                sh.msg[..m.len().min(300)].copy_from_slice(&m.as_bytes()[..m.len().min(300)]);
                sh.msg_len = m.len().min(300) as u32;
                return;
            }
        };
        if id >= 7 {
            vm.register_helper(PEEK_ID, peek).expect("register_helper");
        }
        let mut jit_ok = None;
        let mut cl_ok = None;
        let mut reloaded = false;
        let reload_at = if matches!(kind, VmKind::Fixed { .. }) && c.reload % 4 != 0 && id >= 5 { Some(c.schedule.len() / 2) } else { None };
        for (k, (e, pi)) in c.schedule.iter().enumerate() {
            if reload_at == Some(k) {
                let (d2, e2) = reloaded_offsets(c);
                let p2: &'static [u8] = Box::leak(programs_with(c, d2, e2).into_iter().find(|(i, _)| *i == id).expect("probe").1.into_boxed_slice());
                if let Err(e) = vm.set_program(p2, (d2 as usize, e2 as usize)) {
                    let m = format!("set_program(probe {id}, offsets {d2:#x}/{e2:#x}) failed: {e}");
                    sh.msg[..m.len().min(300)].copy_from_slice(&m.as_bytes()[..m.len().min(300)]);
                    sh.msg_len = m.len().min(300) as u32;
                    return;
                }
                // compiled code belongs to the old program
                jit_ok = None;
                cl_ok = None;
                reloaded = true;
            }
            let engine = ENGINES[*e as usize % 3];
            let (len, _) = c.pkts[*pi as usize];
            // packet loads on an empty packet are (rightly) errors / traps / unchecked: skip them
            if (id == 3 || id == 4) && len == 0 {
                continue;
            }
            if matches!(kind, VmKind::NoData) && *pi != 0 {
                continue;
            }
            // the helper of probe 9 reads eight bytes
            if id == 9 && matches!(kind, VmKind::Raw) && len < 8 {
                continue;
            }
            sh.stage = 100 * id as u32 + 10 * (*e as u32 % 3) + 1;
            if engine == Engine::Jit && jit_ok.is_none() {
                jit_ok = Some(catch(std::panic::AssertUnwindSafe(|| vm.jit_compile())));
            }
            if engine == Engine::Cranelift && cl_ok.is_none() {
                cl_ok = Some(catch(std::panic::AssertUnwindSafe(|| vm.cranelift_compile())));
            }
            sh.stage = 100 * id as u32 + 10 * (*e as u32 % 3) + 2;
            fill_pkt(*pi as usize);
            let (pa, pl, ml) = (mem.pkt_addr(c, *pi as usize) as *mut u8, len as usize, c.mbuff_len as usize);
            let r = catch(std::panic::AssertUnwindSafe(|| {
                let pkt: &'static mut [u8] = std::slice::from_raw_parts_mut(pa, pl);
                let mbs: &'static mut [u8] = std::slice::from_raw_parts_mut(mb, ml);
                vm.exec(engine, pkt, mbs)
            }));
            let (status, value) = match r {
                Ok(Ok(v)) => (1, v),
                Ok(Err(_)) => (2, 0),
                Err(_) => (3, 0),
            };
            if n < sh.recs.len() {
                sh.recs[n] = Rec { status, prog: id, engine: *e % 3, pkt: *pi, _pad: reloaded as u8, value };
                n += 1;
                sh.n = n as u32;
            }
        }
    }
    sh.stage = 9999;
}

pub fn check(mem: &Mem9, c: &C9Case) -> Verdict {
    unsafe {
        let sh = &mut *mem.shared;
        sh.stage = 0;
        sh.n = 0;
        sh.msg_len = 0;
        sh.fixed_buf_len = 0;
        let pid = libc::fork();
        assert!(pid >= 0);
        if pid == 0 {
            libc::alarm(180);
            let r = std::panic::catch_unwind(std::panic::AssertUnwindSafe(|| child(mem, c)));
            libc::_exit(if r.is_ok() { 0 } else { 97 });
        }
        let mut status = 0i32;
        libc::waitpid(pid, &mut status, 0);
        let sh = &*mem.shared;
        let kind = vm_kind(c);
        let desc = || format!("kind {kind:?} packets (len, fill) {:?} schedule (engine, packet) {:?}", c.pkts, c.schedule);
        if libc::WIFSIGNALED(status) {
            let sig = libc::WTERMSIG(status);
            if sig == libc::SIGALRM {
                return Verdict::Inconclusive("C09 child hit the watchdog".into());
            }
            let eng = ENGINES[((sh.stage / 10) % 10) as usize % 3].name();
            return Verdict::fail(format!("{eng}:signal-{sig}"), format!("child died with signal {sig} at stage {} (program {}, engine {eng}, phase {})\n{}", sh.stage, sh.stage / 100, sh.stage % 10, desc()));
        }
        if !(libc::WIFEXITED(status) && libc::WEXITSTATUS(status) == 0) || sh.stage != 9999 {
            let m = String::from_utf8_lossy(&sh.msg[..sh.msg_len as usize]).to_string();
            return Verdict::fail("harness:child-failed", format!("exit status {status}, stage {}, {m}\n{}", sh.stage, desc()));
        }
        let arenas = [(mem.pkt.data_start() as u64, 2 * PAGE as u64), (mem.mbuff.data_start() as u64, PAGE as u64)];
        let mut fixed_r1: Option<u64> = None;
        for r in &sh.recs[..sh.n as usize] {
            let eng = ENGINES[r.engine as usize].name();
            let (len, fill) = c.pkts[r.pkt as usize];
            let addr = mem.pkt_addr(c, r.pkt as usize);
            let fail = |what: &str, detail: String| Verdict::fail(format!("{eng}:{what}"), format!("{detail}\nprogram {} engine {eng} packet #{} (addr {addr:#x}, len {len})\n{}", r.prog, r.pkt, desc()));
            if r.status != 1 {
                return fail("probe-did-not-return", format!("status {} (2 = Err, 3 = panic)", r.status));
            }
            let v = r.value;
            match r.prog {
                0 => match kind {
                    VmKind::NoData => {
                        if v != 0 {
                            return fail("wrong-r1", format!("r1 = {v:#x} at entry of a no-data VM, expected 0"));
                        }
                    }
                    VmKind::Raw => {
                        let want = if len == 0 { 0 } else { addr };
                        if v != want {
                            return fail("wrong-r1", format!("r1 = {v:#x} at entry of a raw VM, expected {want:#x}"));
                        }
                    }
                    VmKind::Mbuff { .. } => {
                        if v != mem.mbuff_addr() {
                            return fail("wrong-r1", format!("r1 = {v:#x} at entry of a metadata VM, metadata buffer is at {:#x}", mem.mbuff_addr()));
                        }
                    }
                    VmKind::Fixed { .. } => {
                        if v == 0 || fixed_r1.map(|f| f != v).unwrap_or(false) {
                            return fail("wrong-r1", format!("r1 = {v:#x} at entry of a fixed-metadata VM, earlier executions saw {fixed_r1:x?}"));
                        }
                        fixed_r1 = Some(v);
                    }
                },
                1 => {
                    // [v-512, v) must be disjoint from the packet and metadata arenas
                    let (lo, hi) = (v.wrapping_sub(512), v);
                    for (s, l) in arenas {
                        if lo < s + l && hi > s {
                            return fail("stack-overlaps-buffers", format!("r10 = {v:#x}: the stack overlaps the arena at {s:#x}"));
                        }
                    }
                    if v == 0 {
                        return fail("wrong-r10", "r10 = 0".into());
                    }
                }
                2 => {
                    if v != 0x1122 {
                        return fail("stack-not-usable", format!("bytes stored at [r10-1] and [r10-512] read back as {v:#x}, expected 0x1122"));
                    }
                }
                3 | 4 => {
                    let want = (fill.wrapping_mul(7) | 1) as u64;
                    if v != want {
                        return fail("packet-load-wrong", format!("{} returned {v:#x}, the first packet byte is {want:#x}", if r.prog == 3 { "ldabsb 0" } else { "ldindb r4(=0), 0" }));
                    }
                }
                9 => {
                    let want = match kind {
                        VmKind::Raw => u64::from_le_bytes(std::array::from_fn(|k| fill.wrapping_add(k as u8).wrapping_mul(7) | 1)),
                        _ => 0x3333_3333_3333_3333,
                    };
                    if v != want {
                        return fail("helper-sees-wrong-context", format!("a helper called with the entry value of r1 read {v:#x} at *(r1), the buffer starts with {want:#x}"));
                    }
                }
                5 | 7 => {
                    if len > 0 && v != addr {
                        return fail("fixed-mbuff-start-pointer", format!("*(r1+data_offset) = {v:#x} ({}), the first packet byte is at {addr:#x}", if r.prog == 7 { "read by a helper that was passed r1; the program has no load instruction" } else { "read by the program" }));
                    }
                }
                10 => {
                    if r._pad == 1 && v != 0 {
                        return fail("fixed-mbuff-stale-slot", format!("after set_program() with other offsets the slot that used to hold a packet pointer reads {v:#x}; a VM created with the new offsets has 0 there"));
                    }
                }
                6 | 8 => {
                    if v != len as u64 {
                        return fail("fixed-mbuff-end-pointer", format!("*(r1+end_offset) - *(r1+data_offset) = {v:#x} ({}), the packet length is {len:#x}", if r.prog == 8 { "read by a helper that was passed r1; the program has no load instruction" } else { "read by the program" }));
                    }
                }
                _ => {}
            }
        }
        Verdict::Pass
    }
}

fn to_json(c: &C9Case) -> Value {
    json!({"kind": c.kind, "data_off": c.data_off, "end_off": c.end_off, "pkts": c.pkts, "mbuff_len": c.mbuff_len, "schedule": c.schedule, "reload": c.reload})
}

fn from_json(v: &Value) -> Option<C9Case> {
    let pairs = |x: &Value| -> Vec<(u64, u64)> { x.as_array().map(|a| a.iter().map(|p| (p[0].as_u64().unwrap_or(0), p[1].as_u64().unwrap_or(0))).collect()).unwrap_or_default() };
    Some(C9Case {
        kind: v["kind"].as_u64()? as u8,
        data_off: v["data_off"].as_u64()? as u32,
        end_off: v["end_off"].as_u64()? as u32,
        pkts: pairs(&v["pkts"]).into_iter().map(|(a, b)| (a as u16, b as u8)).collect(),
        mbuff_len: v["mbuff_len"].as_u64()? as u8,
        schedule: pairs(&v["schedule"]).into_iter().map(|(a, b)| (a as u8, b as u8)).collect(),
        reload: v["reload"].as_u64().unwrap_or(0) as u8,
    })
}

fn run(ctx: &Ctx) {
    let mem = RefCell::new(Mem9::new());
    ctx.shrink_iters.set(1500);
    let cases = ctx.share(ctx.tier.pick(25_600, 512_000));
    ctx.search("contexts", "c9", cases, case(), |c, want_case| {
        let v = check(&mem.borrow(), c);
        if !want_case {
            let mut st = ctx.stats();
            if !st.is_frozen() {
                st.eval();
                let kind = vm_kind(c);
                st.class(&format!("vm:{}", kind.name()));
                for (e, _) in &c.schedule {
                    st.class(&format!("exec:{}", ENGINES[*e as usize % 3].name()));
                }
                if c.pkts.iter().any(|p| p.0 == 0) {
                    st.class("has-empty-packet");
                }
                // consecutive executions on two different packets placed by the same slot rule
                let mem = mem.borrow();
                if c.schedule.windows(2).any(|w| {
                    let (a, b) = (w[0].1 as usize, w[1].1 as usize);
                    a != b && c.pkts[a].0 != c.pkts[b].0 && c.pkts[a].0.min(c.pkts[b].0) as usize <= 2048 && {
                        let (pa, pb) = (mem.pkt_addr(c, a), mem.pkt_addr(c, b));
                        pa == pb || pa + c.pkts[a].0 as u64 == pb + c.pkts[b].0 as u64
                    }
                }) {
                    st.class("consecutive-packets-share-start-or-end-address");
                }
                if let VmKind::Fixed { data_off, end_off } = kind {
                    st.class(if data_off < end_off { "fixed:data<end" } else { "fixed:end<data" });
                    if data_off.max(end_off) > 32767 {
                        st.class("fixed:offset>32767");
                    }
                    if (data_off as i64 - end_off as i64).abs() == 8 {
                        st.class("fixed:adjacent");
                    }
                }
                let fixed_nonempty = matches!(kind, VmKind::Fixed { .. }) && c.pkts.iter().any(|p| p.0 > 0);
                if fixed_nonempty || c.schedule.len() >= 2 {
                    st.nontrivial(fnv_str(&format!("{c:?}")));
                }
                st.sample(4, || to_json(c));
            }
        }
        (v, if want_case { to_json(c) } else { Value::Null })
    });
}

fn replay(_ctx: &Ctx, _kind: &str, case: &Value) -> Verdict {
    match from_json(case) {
        Some(c) => check(&Mem9::new(), &c),
        None => Verdict::Discard("bad-replay"),
    }
}

#[allow(dead_code)]
fn _unused() -> String {
    isa::hex(&[])
}
