use crate::engine::{Ctx, PropInfo, Verdict};
use serde_json::Value;

pub mod bigpkt;
pub mod c01;
pub mod c02;
pub mod c05;
pub mod c06;
pub mod c07;
pub mod c08;
pub mod c09;
pub mod c10;
pub mod c13;
pub mod c14;
pub mod c15;
pub mod c17;
pub mod c18;
pub mod c19;
pub mod c20;
pub mod matrix;

pub struct PropDef {
    pub info: PropInfo,
    pub run: fn(&Ctx),
    pub replay: fn(&Ctx, &str, &Value) -> Verdict,
    /// properties whose work cannot be split over worker processes
    pub single_worker: bool,
}

pub fn all() -> Vec<PropDef> {
    vec![c01::def01(), c01::def03(), c01::def04(), c02::def02(), c02::def11(), c05::def05(), c05::def12(), c06::def(), c07::def(), c08::def(), c09::def(), c10::def(), c13::def(), c14::def(), c15::def(), c15::def16(), c17::def(), c18::def(), c19::def(), c20::def()]
}

pub fn find(id: &str) -> Option<PropDef> {
    all().into_iter().find(|d| d.info.id == id)
}

/// Run a closure under catch_unwind with the panic message captured (and not printed).
pub fn catch<T>(f: impl FnOnce() -> T + std::panic::UnwindSafe) -> Result<T, String> {
    use std::sync::Once;
    static HOOK: Once = Once::new();
    thread_local! {
        static LAST: std::cell::RefCell<String> = const { std::cell::RefCell::new(String::new()) };
    }
    HOOK.call_once(|| {
        std::panic::set_hook(Box::new(|info| {
            let loc = info.location().map(|l| format!("{}:{}", l.file(), l.line())).unwrap_or_default();
            let msg = if let Some(s) = info.payload().downcast_ref::<&str>() {
                s.to_string()
            } else if let Some(s) = info.payload().downcast_ref::<String>() {
                s.clone()
            } else {
                "<non-string panic>".to_string()
            };
            LAST.with(|l| *l.borrow_mut() = format!("{msg} @ {loc}"));
        }));
    });
    match std::panic::catch_unwind(f) {
        Ok(v) => Ok(v),
        Err(_) => Err(LAST.with(|l| l.borrow().clone())),
    }
}

/// Shorten a panic message to a stable signature: file name + message without numbers.
pub fn panic_signature(msg: &str) -> String {
    let (m, loc) = msg.rsplit_once(" @ ").unwrap_or((msg, ""));
    let file = loc.rsplit('/').next().unwrap_or(loc).split(':').next().unwrap_or("");
    let mut out = String::new();
    let mut last_hash = false;
    for c in m.chars().take(60) {
        if c.is_ascii_digit() {
            if !last_hash {
                out.push('#');
            }
            last_hash = true;
        } else if c.is_whitespace() {
            out.push('_');
            last_hash = false;
        } else {
            out.push(c);
            last_hash = false;
        }
    }
    format!("panic:{file}:{out}")
}

/// Run `f` with file descriptor 1 redirected into an anonymous memory file; returns the closure's
/// result (panic message on unwind) and everything that was printed.
pub fn capture_stdout<T>(f: impl FnOnce() -> T + std::panic::UnwindSafe) -> (Result<T, String>, Vec<u8>) {
    use std::io::Write;
    unsafe {
        let _ = std::io::stdout().flush();
        let fd = libc::memfd_create(b"verif-stdout\0".as_ptr() as *const libc::c_char, 0);
        if fd < 0 {
            return (Err("memfd_create failed".into()), vec![]);
        }
        let saved = libc::dup(1);
        libc::dup2(fd, 1);
        let r = catch(f);
        let _ = std::io::stdout().flush();
        libc::dup2(saved, 1);
        libc::close(saved);
        let len = libc::lseek(fd, 0, libc::SEEK_END).max(0) as usize;
        libc::lseek(fd, 0, libc::SEEK_SET);
        let mut out = vec![0u8; len];
        let mut got = 0usize;
        while got < len {
            let n = libc::read(fd, out.as_mut_ptr().add(got) as *mut libc::c_void, len - got);
            if n <= 0 {
                break;
            }
            got += n as usize;
        }
        out.truncate(got);
        libc::close(fd);
        (r, out)
    }
}

/// Run `f` in a forked child; it reports (status, value) through a pipe. Err(signal) if the child
/// was killed (a fault or an abort inside `f`), Err(0) if it exited without reporting.
pub fn fork_call(f: impl FnOnce() -> (u32, u64)) -> Result<(u32, u64), i32> {
    unsafe {
        let mut fds = [0i32; 2];
        assert_eq!(libc::pipe(fds.as_mut_ptr()), 0);
        let pid = libc::fork();
        assert!(pid >= 0);
        if pid == 0 {
            libc::alarm(60);
            let r = std::panic::catch_unwind(std::panic::AssertUnwindSafe(f)).unwrap_or((u32::MAX, 0));
            let mut buf = [0u8; 12];
            buf[..4].copy_from_slice(&r.0.to_le_bytes());
            buf[4..].copy_from_slice(&r.1.to_le_bytes());
            libc::write(fds[1], buf.as_ptr() as *const libc::c_void, 12);
            libc::_exit(0);
        }
        libc::close(fds[1]);
        let mut buf = [0u8; 12];
        let mut got = 0usize;
        while got < 12 {
            let n = libc::read(fds[0], buf.as_mut_ptr().add(got) as *mut libc::c_void, 12 - got);
            if n <= 0 {
                break;
            }
            got += n as usize;
        }
        libc::close(fds[0]);
        let mut status = 0i32;
        libc::waitpid(pid, &mut status, 0);
        if libc::WIFSIGNALED(status) {
            return Err(libc::WTERMSIG(status));
        }
        if got < 12 {
            return Err(0);
        }
        Ok((u32::from_le_bytes(buf[..4].try_into().unwrap()), u64::from_le_bytes(buf[4..].try_into().unwrap())))
    }
}
