//! C06 - the default verifier accepts exactly the well-formed programs.

use super::{catch, panic_signature, PropDef};
use crate::engine::*;
use crate::isa;
use crate::refver::{self, Rule};
use crate::soup;
use proptest::prelude::*;
use serde_json::{json, Value};

pub fn def() -> PropDef {
    PropDef {
        info: PropInfo {
            id: "C06",
            rule: "byte strings from the near-valid generator (a well-formed program built by construction over all supported opcodes, then 0-2 targeted mutations: opcode byte, register nibbles, jump/call target classes {0, self, next, last, one past the end, -1, second half of an lddw, in range, out of range}, immediate classes, last instruction, truncation, broken lddw), plus fully random short strings and the length classes 0 / 8,000,000 / 8,000,008 bytes. Oracle: independent reference verifier written from the statement; the real verdict is taken from new() and set_program() of all four VM kinds, which must agree; every accepted program is additionally re-loaded, on a VM that already holds it, as prefixes of the same buffer (same start address, other lengths), each of which must be judged on its own bytes. Non-trivial = accepted by the reference, or rejected with exactly one violated rule (near miss); distinct by hash of the bytes.",
            assumptions: &["reference verifier harness/vrun/src/refver.rs states the property correctly"],
        },
        run,
        replay,
        single_worker: false,
    }
}

/// Verdict of the real default verifier through every public entry point.
pub fn real_verdicts(prog: &[u8]) -> Result<Vec<(&'static str, bool)>, String> {
    let p = prog.to_vec();
    catch(move || {
        let mut v = Vec::new();
        v.push(("EbpfVmMbuff::new", rbpf::EbpfVmMbuff::new(Some(&p)).is_ok()));
        v.push(("EbpfVmRaw::new", rbpf::EbpfVmRaw::new(Some(&p)).is_ok()));
        v.push(("EbpfVmNoData::new", rbpf::EbpfVmNoData::new(Some(&p)).is_ok()));
        v.push(("EbpfVmFixedMbuff::new", rbpf::EbpfVmFixedMbuff::new(Some(&p), 0x40, 0x50).is_ok()));
        let mut vm = rbpf::EbpfVmMbuff::new(None).unwrap();
        v.push(("EbpfVmMbuff::set_program", vm.set_program(&p).is_ok()));
        let mut vm = rbpf::EbpfVmRaw::new(None).unwrap();
        v.push(("EbpfVmRaw::set_program", vm.set_program(&p).is_ok()));
        let mut vm = rbpf::EbpfVmNoData::new(None).unwrap();
        v.push(("EbpfVmNoData::set_program", vm.set_program(&p).is_ok()));
        let mut vm = rbpf::EbpfVmFixedMbuff::new(None, 0, 8).unwrap();
        v.push(("EbpfVmFixedMbuff::set_program", vm.set_program(&p, 0x40, 0x50).is_ok()));
        v
    })
}

/// A VM that already holds `prog` is handed prefixes of the very same buffer (slices that start
/// at the same address): each must be judged on its own bytes.
fn check_alias_reload(prog: &[u8]) -> Verdict {
    let n = prog.len();
    let cuts = [n - 8, n - 3, n / 2 / 8 * 8, 8, 0, n - 16];
    for cut in cuts {
        if cut >= n {
            continue;
        }
        let want = refver::violations(&prog[..cut]).is_empty();
        let p = prog.to_vec();
        let got = catch(move || {
            let mut a = rbpf::EbpfVmMbuff::new(Some(&p)).expect("accepted program");
            let r1 = a.set_program(&p[..cut]).is_ok();
            let mut b = rbpf::EbpfVmFixedMbuff::new(Some(&p), 0x40, 0x50).expect("accepted program");
            let r2 = b.set_program(&p[..cut], 0x40, 0x50).is_ok();
            (r1, r2)
        });
        match got {
            Err(m) => return Verdict::fail(panic_signature(&m), format!("set_program panicked on a {cut}-byte prefix of the loaded program: {m}")),
            Ok((r1, r2)) => {
                if r1 != want || r2 != want {
                    return Verdict::fail(
                        if want { "reload:rejects-well-formed-prefix" } else { "reload:accepts-malformed-prefix" },
                        format!(
                            "a VM holding the {n}-byte program below was given its own first {cut} bytes: set_program returned Ok={r1}/{r2}, the reference verifier says {}\n{}",
                            if want { "accept" } else { "reject" },
                            isa::listing(prog, 16).join("\n")
                        ),
                    );
                }
            }
        }
    }
    Verdict::Pass
}

pub fn check_bytes(prog: &[u8]) -> Verdict {
    let viol = refver::violations(prog);
    let want = viol.is_empty();
    if want && prog.len() >= 16 && prog.len() <= 4096 {
        let v = check_alias_reload(prog);
        if !matches!(v, Verdict::Pass) {
            return v;
        }
    }
    match real_verdicts(prog) {
        Err(m) => Verdict::fail(panic_signature(&m), format!("verifier panicked: {m}\nreference: {:?}", viol)),
        Ok(v) => {
            for (name, got) in &v {
                if *got != want {
                    let sig = if want {
                        "rejects-well-formed".to_string()
                    } else {
                        format!("accepts:{}", viol.iter().map(|r| r.name()).collect::<Vec<_>>().join("+"))
                    };
                    return Verdict::fail(
                        sig,
                        format!(
                            "{name} {} a program the reference verifier {} (violated rules: {:?})\n{}",
                            if *got { "accepts" } else { "rejects" },
                            if want { "accepts" } else { "rejects" },
                            viol,
                            isa::listing(prog, 12).join("\n")
                        ),
                    );
                }
            }
            Verdict::Pass
        }
    }
}

fn account(ctx: &Ctx, prog: &[u8], class: &str) {
    let viol = refver::violations(prog);
    let mut st = ctx.stats();
    st.eval();
    st.class(class);
    if viol.is_empty() {
        st.class("ref:accept");
        st.nontrivial(fnv(prog));
    } else {
        st.class("ref:reject");
        if viol.len() == 1 {
            st.class(&format!("near-miss:{}", viol[0].name()));
            st.nontrivial(fnv(prog));
        }
    }
    if viol.len() <= 1 && prog.len() >= 16 && prog.len() <= 512 {
        st.sample(4, || json!({"bytes": isa::hex(prog), "listing": isa::listing(prog, 10), "reference": if viol.is_empty() { "accept".to_string() } else { format!("reject: {}", viol[0].name()) }}));
    }
}

fn run(ctx: &Ctx) {
    // length classes (worker 0 only; fixed work)
    if ctx.worker == 0 {
        let exit = isa::Insn::new(isa::EXIT, 0, 0, 0, 0).encode();
        let mov = isa::Insn::new(0xb7, 0, 0, 0, 1).encode();
        let mut specials: Vec<(String, Vec<u8>)> = vec![("len:0".into(), vec![])];
        for n in [1usize, 2, 999_999, 1_000_000, 1_000_001] {
            let mut p = Vec::with_capacity(n * 8);
            for _ in 0..n - 1 {
                p.extend_from_slice(&mov);
            }
            p.extend_from_slice(&exit);
            specials.push((format!("len:{n}-insns"), p.clone()));
            if n <= 2 || n == 1_000_000 {
                let mut q = p.clone();
                q.truncate(q.len() - 3);
                specials.push((format!("len:{n}-insns-minus-3-bytes"), q));
            }
        }
        for (name, p) in specials {
            let v = check_bytes(&p);
            account(ctx, &p, &name);
            let big = p.len() > 4096;
            if ctx.enumerate_case(v, "bytes", || if big { json!({"mov_exit_len": p.len()}) } else { json!({"bytes": isa::hex(&p)}) }) {
                return;
            }
        }
    }
    ctx.shrink_iters.set(60_000);
    let cases = ctx.share(ctx.tier.pick(3_200_000, 64_000_000));
    ctx.search("soup", "bytes", cases, soup::soup(24), |s, want_case| {
        let prog = soup::lower(s);
        let v = check_bytes(&prog);
        if !want_case {
            account(ctx, &prog, &format!("soup:{}-mutations", s.muts.len()));
        }
        (v, if want_case { json!({"bytes": isa::hex(&prog), "listing": isa::listing(&prog, 30)}) } else { Value::Null })
    });
    // the same near-valid programs embedded in long ones (up to 140,000 instructions), mutations
    // applied anywhere: position-dependent rules deep inside a long program, far from both ends
    let cases = ctx.share(ctx.tier.pick(24_000, 480_000));
    ctx.shrink_iters.set(300);
    ctx.search("soup-long", "rle", cases, soup::soup_embedded(24), |s, want_case| {
        let prog = soup::lower(s);
        let v = check_bytes(&prog);
        if !want_case {
            account(ctx, &prog, &format!("soup-long:{}-mutations", s.muts.len()));
            let n = prog.len() / 8;
            let mut st = ctx.stats();
            st.class(match n {
                0..=1000 => "soup-long:<=1000-insns",
                1001..=32768 => "soup-long:1001-32768-insns",
                32769..=65536 => "soup-long:32769-65536-insns",
                _ => "soup-long:>65536-insns",
            });
        }
        (v, if want_case { json!({"rle": rle(&prog), "listing": isa::listing(&prog, 8)}) } else { Value::Null })
    });
    ctx.shrink_iters.set(60_000);
    let cases = ctx.share(ctx.tier.pick(400_000, 8_000_000));
    ctx.search("random", "bytes", cases, prop::collection::vec(any::<u8>(), 0..40), |prog, want_case| {
        let v = check_bytes(prog);
        if !want_case {
            account(ctx, prog, "random-bytes");
        }
        (v, if want_case { json!({"bytes": isa::hex(prog)}) } else { Value::Null })
    });
}

/// Run-length encoding over 8-byte slots: [[count, hex slot], ...] plus the trailing bytes.
fn rle(bytes: &[u8]) -> Value {
    let mut runs: Vec<(u64, &[u8])> = Vec::new();
    let mut chunks = bytes.chunks_exact(8);
    for c in &mut chunks {
        match runs.last_mut() {
            Some((n, s)) if *s == c => *n += 1,
            _ => runs.push((1, c)),
        }
    }
    json!({"runs": runs.iter().map(|(n, s)| json!([n, isa::hex(s)])).collect::<Vec<_>>(), "tail": isa::hex(chunks.remainder())})
}

fn unrle(v: &Value) -> Vec<u8> {
    let mut out = Vec::new();
    for r in v["runs"].as_array().map(|a| a.as_slice()).unwrap_or(&[]) {
        let slot = isa::unhex(r[1].as_str().unwrap_or(""));
        for _ in 0..r[0].as_u64().unwrap_or(0) {
            out.extend_from_slice(&slot);
        }
    }
    out.extend_from_slice(&isa::unhex(v["tail"].as_str().unwrap_or("")));
    out
}

fn replay(_ctx: &Ctx, _kind: &str, case: &Value) -> Verdict {
    if case.get("rle").is_some() {
        return check_bytes(&unrle(&case["rle"]));
    }
    if let Some(n) = case["mov_exit_len"].as_u64() {
        let exit = isa::Insn::new(isa::EXIT, 0, 0, 0, 0).encode();
        let mov = isa::Insn::new(0xb7, 0, 0, 0, 1).encode();
        let mut p = Vec::new();
        while p.len() + 8 < n as usize {
            p.extend_from_slice(&mov);
        }
        p.extend_from_slice(&exit);
        p.truncate(n as usize);
        return check_bytes(&p);
    }
    check_bytes(&isa::unhex(case["bytes"].as_str().unwrap_or("")))
}

#[allow(dead_code)]
fn _rule_is_used(r: Rule) -> &'static str {
    r.name()
}
