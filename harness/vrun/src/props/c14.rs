//! C14 - the assembler is total: any text yields Ok or Err, never a panic.

use super::{catch, panic_signature, PropDef};
use crate::asmref;
use crate::engine::*;
use proptest::prelude::*;
use serde_json::{json, Value};
use std::time::Instant;

pub fn def() -> PropDef {
    PropDef {
        info: PropInfo {
            id: "C14",
            rule: "strings from three generators: (a) token soup over the assembler alphabet - mnemonics, registers with 1-40 digit numbers, identifiers of up to 80 Unicode letters/digits of 1-4 bytes each, decimal and hexadecimal literals of 1-80 digits with every sign combination, the extreme values around 2^63 and 2^64, brackets, commas, truncated operands; (b) arbitrary Unicode strings; (c) valid texts from the C13 generator with 1-3 character-level mutations. Oracle: assemble() returns under catch_unwind (Ok or Err); inputs are at most a few KiB so the work is bounded; a single call slower than 20 s is reported as inconclusive, not as a violation. Non-trivial = input containing a numeric literal of >= 19 digits, a sign, or a bracket; distinct by hash.",
            assumptions: &["a panic anywhere below assemble() unwinds (the harness is built with panic=unwind)"],
        },
        run,
        replay,
        single_worker: false,
    }
}

pub fn check_total(text: &str) -> Verdict {
    let t = text.to_string();
    let start = Instant::now();
    let r = catch(move || rbpf::assembler::assemble(&t).is_ok());
    let el = start.elapsed().as_secs_f64();
    match r {
        Err(m) => Verdict::fail(panic_signature(&m), format!("assemble panicked on {text:?}: {m}")),
        Ok(_) if el > 20.0 => Verdict::Inconclusive(format!("assemble took {el:.1}s on a {}-byte input", text.len())),
        Ok(_) => Verdict::Pass,
    }
}

fn digits(max: usize) -> impl Strategy<Value = String> {
    prop_oneof![
        3 => proptest::string::string_regex(&format!("[0-9]{{1,{max}}}")).unwrap(),
        2 => prop::sample::select(vec![
            "9223372036854775807", "9223372036854775808", "18446744073709551615", "18446744073709551616",
            "2147483647", "2147483648", "4294967295", "4294967296", "99999999999999999999", "0", "00000000000000000000000001",
        ]).prop_map(String::from),
    ]
}

fn hexdigits(max: usize) -> impl Strategy<Value = String> {
    prop_oneof![
        3 => proptest::string::string_regex(&format!("[0-9a-fA-F]{{1,{max}}}")).unwrap(),
        2 => prop::sample::select(vec![
            "7fffffffffffffff", "8000000000000000", "ffffffffffffffff", "10000000000000000", "ffffffff", "100000000", "0", "fffffffffffffffffffffffff",
        ]).prop_map(String::from),
    ]
}

fn number() -> impl Strategy<Value = String> {
    let sign = prop::sample::select(vec!["", "", "-", "+", "--", "+-"]);
    prop_oneof![
        (sign.clone(), digits(80)).prop_map(|(s, d)| format!("{s}{d}")),
        (sign, hexdigits(80)).prop_map(|(s, d)| format!("{s}0x{d}")),
        Just("0x".to_string()),
        Just("-".to_string()),
    ]
}

/// identifiers made of Unicode letters/digits of 1-4 bytes each, up to 80 characters (the parser's
/// notion of an identifier is "alphanumeric", not "ASCII")
fn unicode_ident() -> impl Strategy<Value = String> {
    let ch = prop_oneof![
        3 => prop::sample::select(vec!['a', 'z', 'x', 'r', '0', '9', 'j', 'e']),
        2 => prop::sample::select(vec!['\u{e9}', '\u{df}', '\u{3a9}', '\u{416}', '\u{661}']),
        2 => prop::sample::select(vec!['\u{4e2d}', '\u{3042}', '\u{0e01}', '\u{ff21}']),
        1 => prop::sample::select(vec!['\u{1d400}', '\u{10400}', '\u{1d7ce}']),
    ];
    prop::collection::vec(ch, 1..80).prop_map(|v| v.into_iter().collect())
}

fn token() -> impl Strategy<Value = String> {
    let mn: Vec<String> = crate::isa::mnemonics().into_iter().map(|m| m.0).collect();
    prop_oneof![
        4 => prop::sample::select(mn),
        4 => number(),
        3 => digits(40).prop_map(|d| format!("r{d}")),
        2 => unicode_ident(),
        2 => (digits(30), number()).prop_map(|(r, n)| format!("[r{r}{n}]")),
        1 => (digits(30), number()).prop_map(|(r, n)| format!("[r{r}+{n}")),
        1 => digits(3).prop_map(|r| format!("[r{r}]")),
        1 => prop::sample::select(vec!["[", "]", ",", ", ", "r", "[r", "[r1+", "0x", "\n", " ", "\t", "+", "-", "exit", "_", ";", "#"]).prop_map(String::from),
    ]
}

pub fn token_soup_strategy() -> impl Strategy<Value = String> {
    token_soup()
}

fn token_soup() -> impl Strategy<Value = String> {
    (prop::collection::vec((token(), prop::sample::select(vec![" ", ", ", ",", "\n", ""])), 1..10)).prop_map(|v| {
        let mut s = String::new();
        for (t, sep) in v {
            s.push_str(&t);
            s.push_str(sep);
        }
        s
    })
}

#[derive(Clone, Debug)]
struct Mutated {
    base: String,
    muts: Vec<(u16, u8, char)>,
}

fn mutated_valid() -> impl Strategy<Value = Mutated> {
    (asmref::program(4), prop::collection::vec((any::<u16>(), 0u8..3, prop_oneof![any::<char>(), prop::sample::select(vec!['0', '9', 'x', 'r', '[', ']', ',', '-', '+', ' ', '\n', 'f'])]), 1..4))
        .prop_map(|(lines, muts)| Mutated { base: asmref::render(&lines), muts })
}

fn apply_muts(m: &Mutated) -> String {
    let mut chars: Vec<char> = m.base.chars().collect();
    for (pos, op, c) in &m.muts {
        if chars.is_empty() {
            chars.push(*c);
            continue;
        }
        let p = ((*pos as usize) * chars.len()) >> 16;
        match op {
            0 => chars[p] = *c,
            1 => chars.insert(p, *c),
            _ => {
                chars.remove(p);
            }
        }
    }
    chars.into_iter().collect()
}

fn nontrivial(s: &str) -> bool {
    let mut run = 0;
    let mut long = false;
    for c in s.chars() {
        if c.is_ascii_hexdigit() {
            run += 1;
            if run >= 19 {
                long = true;
            }
        } else {
            run = 0;
        }
    }
    long || s.contains('-') || s.contains('+') || s.contains('[')
}

fn account(ctx: &Ctx, s: &str, class: &str) {
    let mut st = ctx.stats();
    st.eval();
    st.class(class);
    if nontrivial(s) {
        st.nontrivial(fnv_str(s));
        st.class("nontrivial");
    }
    st.sample(6, || json!({"class": class, "text": s}));
}

fn run(ctx: &Ctx) {
    ctx.shrink_iters.set(30_000);
    let cases = ctx.share(ctx.tier.pick(1_000_000, 20_000_000));
    ctx.search("token-soup", "text", cases, token_soup(), |s, want_case| {
        let v = check_total(s);
        if !want_case {
            account(ctx, s, "token-soup");
        }
        (v, if want_case { json!({"text": s}) } else { Value::Null })
    });
    let cases = ctx.share(ctx.tier.pick(100_000, 4_000_000));
    ctx.search("unicode", "text", cases, ".{0,60}", |s, want_case| {
        let v = check_total(s);
        if !want_case {
            account(ctx, s, "unicode");
        }
        (v, if want_case { json!({"text": s}) } else { Value::Null })
    });
    let cases = ctx.share(ctx.tier.pick(300_000, 8_000_000));
    ctx.search("mutated", "text", cases, mutated_valid(), |m, want_case| {
        let s = apply_muts(m);
        let v = check_total(&s);
        if !want_case {
            account(ctx, &s, "mutated-valid");
        }
        (v, if want_case { json!({"text": s}) } else { Value::Null })
    });
}

fn replay(_ctx: &Ctx, _kind: &str, case: &Value) -> Verdict {
    check_total(case["text"].as_str().unwrap_or(""))
}
