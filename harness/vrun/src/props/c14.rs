//! C14 - the assembler is total: any text yields Ok or Err, never a panic.

use super::{catch, panic_signature, PropDef};
use crate::asmref;
use crate::engine::*;
use proptest::prelude::*;
use serde_json::{json, Value};
use std::time::Instant;

pub fn def() -> PropDef {
    PropDef {
        info: PropInfo {
            id: "C14",
            rule: "strings from three generators: (a) token soup over the assembler alphabet - mnemonics, registers with 1-40 digit numbers, identifiers of up to 80 Unicode letters/digits of 1-4 bytes each, decimal and hexadecimal literals of 1-80 digits with every sign combination, the extreme values around 2^63 and 2^64, brackets, commas, truncated operands; (b) arbitrary Unicode strings; (c) valid texts from the C13 generator with 1-3 character-level mutations; (d) valid texts in which a mnemonic's digits, a mnemonic suffix or an operand's digits are replaced by Unicode numeric characters of 2-4 bytes (superscripts, fractions, Arabic-Indic, full-width, Roman, circled, mathematical digits), or the mnemonic is an identifier of 1-5000 bytes over an alphabet that mixes characters of 1-4 bytes (lengths around 256, 500, 1024 and 4096 over-represented). Oracle: assemble() returns under catch_unwind (Ok or Err); inputs are at most a few KiB so the work is bounded; a single call slower than 20 s is reported as inconclusive, not as a violation. Non-trivial = input containing a numeric literal of >= 19 digits, a sign, or a bracket; distinct by hash.",
            assumptions: &["a panic anywhere below assemble() unwinds (the harness is built with panic=unwind)"],
        },
        run,
        replay,
        single_worker: false,
    }
}

pub fn check_total(text: &str) -> Verdict {
    let t = text.to_string();
    let start = Instant::now();
    let r = catch(move || rbpf::assembler::assemble(&t).is_ok());
    let el = start.elapsed().as_secs_f64();
    match r {
        Err(m) => Verdict::fail(panic_signature(&m), format!("assemble panicked on {text:?}: {m}")),
        Ok(_) if el > 20.0 => Verdict::Inconclusive(format!("assemble took {el:.1}s on a {}-byte input", text.len())),
        Ok(_) => Verdict::Pass,
    }
}

fn digits(max: usize) -> impl Strategy<Value = String> {
    prop_oneof![
        3 => proptest::string::string_regex(&format!("[0-9]{{1,{max}}}")).unwrap(),
        2 => prop::sample::select(vec![
            "9223372036854775807", "9223372036854775808", "18446744073709551615", "18446744073709551616",
            "2147483647", "2147483648", "4294967295", "4294967296", "99999999999999999999", "0", "00000000000000000000000001",
        ]).prop_map(String::from),
    ]
}

fn hexdigits(max: usize) -> impl Strategy<Value = String> {
    prop_oneof![
        3 => proptest::string::string_regex(&format!("[0-9a-fA-F]{{1,{max}}}")).unwrap(),
        2 => prop::sample::select(vec![
            "7fffffffffffffff", "8000000000000000", "ffffffffffffffff", "10000000000000000", "ffffffff", "100000000", "0", "fffffffffffffffffffffffff",
        ]).prop_map(String::from),
    ]
}

fn number() -> impl Strategy<Value = String> {
    let sign = prop::sample::select(vec!["", "", "-", "+", "--", "+-"]);
    prop_oneof![
        (sign.clone(), digits(80)).prop_map(|(s, d)| format!("{s}{d}")),
        (sign, hexdigits(80)).prop_map(|(s, d)| format!("{s}0x{d}")),
        Just("0x".to_string()),
        Just("-".to_string()),
    ]
}

/// identifiers made of Unicode letters/digits of 1-4 bytes each, up to 80 characters (the parser's
/// notion of an identifier is "alphanumeric", not "ASCII")
fn unicode_ident() -> impl Strategy<Value = String> {
    let ch = prop_oneof![
        3 => prop::sample::select(vec!['a', 'z', 'x', 'r', '0', '9', 'j', 'e']),
        2 => prop::sample::select(vec!['\u{e9}', '\u{df}', '\u{3a9}', '\u{416}', '\u{661}']),
        2 => prop::sample::select(vec!['\u{4e2d}', '\u{3042}', '\u{0e01}', '\u{ff21}']),
        1 => prop::sample::select(vec!['\u{1d400}', '\u{10400}', '\u{1d7ce}']),
    ];
    prop::collection::vec(ch, 1..80).prop_map(|v| v.into_iter().collect())
}

fn token() -> impl Strategy<Value = String> {
    let mn: Vec<String> = crate::isa::mnemonics().into_iter().map(|m| m.0).collect();
    prop_oneof![
        4 => prop::sample::select(mn),
        4 => number(),
        3 => digits(40).prop_map(|d| format!("r{d}")),
        2 => unicode_ident(),
        2 => (digits(30), number()).prop_map(|(r, n)| format!("[r{r}{n}]")),
        1 => (digits(30), number()).prop_map(|(r, n)| format!("[r{r}+{n}")),
        1 => digits(3).prop_map(|r| format!("[r{r}]")),
        1 => prop::sample::select(vec!["[", "]", ",", ", ", "r", "[r", "[r1+", "0x", "\n", " ", "\t", "+", "-", "exit", "_", ";", "#"]).prop_map(String::from),
    ]
}

pub fn token_soup_strategy() -> impl Strategy<Value = String> {
    token_soup()
}

fn token_soup() -> impl Strategy<Value = String> {
    (prop::collection::vec((token(), prop::sample::select(vec![" ", ", ", ",", "\n", ""])), 1..10)).prop_map(|v| {
        let mut s = String::new();
        for (t, sep) in v {
            s.push_str(&t);
            s.push_str(sep);
        }
        s
    })
}

#[derive(Clone, Debug)]
struct Mutated {
    base: String,
    muts: Vec<(u16, u8, char)>,
}

fn mutated_valid() -> impl Strategy<Value = Mutated> {
    (asmref::program(4), prop::collection::vec((any::<u16>(), 0u8..3, prop_oneof![any::<char>(), prop::sample::select(vec!['0', '9', 'x', 'r', '[', ']', ',', '-', '+', ' ', '\n', 'f'])]), 1..4))
        .prop_map(|(lines, muts)| Mutated { base: asmref::render(&lines), muts })
}

fn apply_muts(m: &Mutated) -> String {
    let mut chars: Vec<char> = m.base.chars().collect();
    for (pos, op, c) in &m.muts {
        if chars.is_empty() {
            chars.push(*c);
            continue;
        }
        let p = ((*pos as usize) * chars.len()) >> 16;
        match op {
            0 => chars[p] = *c,
            1 => chars.insert(p, *c),
            _ => {
                chars.remove(p);
            }
        }
    }
    chars.into_iter().collect()
}

/// Characters that Unicode classes as numeric (Nd outside ASCII, No, Nl; 2, 3 and 4 bytes long):
/// `char::is_numeric` / `is_alphanumeric` accept them, `str::parse::<integer>` does not.
const NUMERICS: [char; 34] = [
    '\u{b2}', '\u{b3}', '\u{b9}', '\u{bc}', '\u{bd}', '\u{be}', '\u{660}', '\u{661}', '\u{662}', '\u{663}', '\u{669}', '\u{6f0}', '\u{6f6}',
    '\u{7c0}', '\u{7c9}', '\u{966}', '\u{96f}', '\u{e51}', '\u{ff10}', '\u{ff11}', '\u{ff16}', '\u{2167}', '\u{2177}', '\u{2460}', '\u{2469}',
    '\u{32bf}', '\u{3007}', '\u{2070}', '\u{2084}', '\u{1d7d8}', '\u{1d7de}', '\u{1d7ff}', '\u{104a0}', '\u{10107}',
];

#[derive(Clone, Debug)]
struct Lookalike {
    lines: Vec<asmref::Line>,
    line: u16,
    mode: u8,
    nums: Vec<char>,
    pos: u16,
    /// mode 5: byte length and alphabet of a long identifier that replaces the mnemonic
    long: (u16, Vec<char>),
}

/// Valid texts in which digits are replaced by (or mnemonics extended with) Unicode numeric
/// characters: everything around the substitution parses and encodes, so the odd token reaches the
/// deepest stage that looks at it.
fn lookalike() -> impl Strategy<Value = Lookalike> {
    let letters = prop::sample::select(vec!['x', 'a', 'Z', '7', '\u{e9}', '\u{3a9}', '\u{416}', '\u{4e2d}', '\u{3042}', '\u{ff21}', '\u{1d400}', '\u{10400}', '\u{b2}', '\u{661}']);
    let len = prop_oneof![2 => 1u16..200, 3 => 240u16..272, 4 => 470u16..530, 2 => 1000u16..1040, 2 => 4080u16..4110, 2 => 1u16..5000];
    (asmref::program(3), any::<u16>(), 0u8..6, prop::collection::vec(prop::sample::select(NUMERICS.to_vec()), 1..3), any::<u16>(), (len, prop::collection::vec(letters, 1..5)))
        .prop_map(|(lines, line, mode, nums, pos, long)| Lookalike { lines, line, mode, nums, pos, long })
}

fn apply_lookalike(l: &Lookalike) -> String {
    let mut lines = l.lines.clone();
    let k = (l.line as usize * lines.len()) >> 16;
    let nums: String = l.nums.iter().collect();
    match l.mode {
        0 => {
            let stem = lines[k].mnemonic.trim_end_matches(|c: char| c.is_ascii_digit()).to_string();
            lines[k].mnemonic = format!("{stem}{nums}");
        }
        1 => {
            let mut it = l.nums.iter().cycle();
            lines[k].mnemonic = lines[k].mnemonic.chars().map(|c| if c.is_ascii_digit() { *it.next().unwrap() } else { c }).collect();
        }
        2 => lines[k].mnemonic.push_str(&nums),
        5 => {
            // an identifier of about long.0 bytes over an alphabet of mixed character widths
            let mut id = String::new();
            let mut it = l.long.1.iter().cycle();
            while id.len() < l.long.0 as usize {
                id.push(*it.next().unwrap());
            }
            lines[k].mnemonic = id;
        }
        _ => {}
    }
    let text = asmref::render(&lines);
    if l.mode < 3 || l.mode == 5 {
        return text;
    }
    let digit_pos: Vec<usize> = text.char_indices().filter(|(_, c)| c.is_ascii_digit()).map(|(i, _)| i).collect();
    if digit_pos.is_empty() {
        return text;
    }
    let at = digit_pos[(l.pos as usize * digit_pos.len()) >> 16];
    let mut out = String::with_capacity(text.len() + 8);
    let mut it = l.nums.iter().cycle();
    for (i, c) in text.char_indices() {
        // mode 3: one digit; mode 4: the whole run of digits around it
        let hit = if l.mode == 3 { i == at } else { c.is_ascii_digit() && text[i.min(at)..i.max(at)].chars().all(|x| x.is_ascii_digit()) };
        out.push(if hit { *it.next().unwrap() } else { c });
    }
    out
}

fn nontrivial(s: &str) -> bool {
    let mut run = 0;
    let mut long = false;
    for c in s.chars() {
        if c.is_ascii_hexdigit() {
            run += 1;
            if run >= 19 {
                long = true;
            }
        } else {
            run = 0;
        }
    }
    long || s.contains('-') || s.contains('+') || s.contains('[')
}

fn account(ctx: &Ctx, s: &str, class: &str) {
    let mut st = ctx.stats();
    st.eval();
    st.class(class);
    if nontrivial(s) {
        st.nontrivial(fnv_str(s));
        st.class("nontrivial");
    }
    st.sample(6, || json!({"class": class, "text": s}));
}

fn run(ctx: &Ctx) {
    ctx.shrink_iters.set(30_000);
    let cases = ctx.share(ctx.tier.pick(1_000_000, 20_000_000));
    ctx.search("token-soup", "text", cases, token_soup(), |s, want_case| {
        let v = check_total(s);
        if !want_case {
            account(ctx, s, "token-soup");
        }
        (v, if want_case { json!({"text": s}) } else { Value::Null })
    });
    let cases = ctx.share(ctx.tier.pick(100_000, 4_000_000));
    ctx.search("unicode", "text", cases, ".{0,60}", |s, want_case| {
        let v = check_total(s);
        if !want_case {
            account(ctx, s, "unicode");
        }
        (v, if want_case { json!({"text": s}) } else { Value::Null })
    });
    let cases = ctx.share(ctx.tier.pick(300_000, 8_000_000));
    ctx.search("mutated", "text", cases, mutated_valid(), |m, want_case| {
        let s = apply_muts(m);
        let v = check_total(&s);
        if !want_case {
            account(ctx, &s, "mutated-valid");
        }
        (v, if want_case { json!({"text": s}) } else { Value::Null })
    });
    let cases = ctx.share(ctx.tier.pick(240_000, 6_000_000));
    ctx.search("lookalike", "text", cases, lookalike(), |l, want_case| {
        let s = apply_lookalike(l);
        let v = check_total(&s);
        if !want_case {
            account(ctx, &s, "unicode-numeric-lookalike");
            let mut st = ctx.stats();
            st.class(match l.mode { 0 => "lookalike:stem+numeric", 1 => "lookalike:mnemonic-digits", 2 => "lookalike:mnemonic+numeric", 3 => "lookalike:one-operand-digit", 4 => "lookalike:operand-digit-run", _ => "lookalike:long-identifier-as-mnemonic" });
            if l.mode == 5 {
                st.class(match s.len() { 0..=255 => "long-identifier:<256-bytes", 256..=511 => "long-identifier:256-511-bytes", 512..=1100 => "long-identifier:512-1100-bytes", _ => "long-identifier:>1100-bytes" });
            }
            st.nontrivial(fnv_str(&s));
        }
        (v, if want_case { json!({"text": s}) } else { Value::Null })
    });
}

fn replay(_ctx: &Ctx, _kind: &str, case: &Value) -> Verdict {
    check_total(case["text"].as_str().unwrap_or(""))
}
