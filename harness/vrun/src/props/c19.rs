//! C19 - the built-in helpers compute their documented functions for all arguments.

use super::{catch, panic_signature, PropDef};
use crate::engine::*;
use proptest::prelude::*;
use rbpf::helpers;
use serde_json::{json, Value};
use std::io::Write;

pub fn def() -> PropDef {
    PropDef {
        info: PropInfo {
            id: "C19",
            rule: "argument tuples from boundary-heavy u64 pools (the arguments a helper does not use get small numbers, boundary values and hashes as well) (0, 1, 15, 16, 16^k-1, 16^k, 2^52+-1, 2^53, perfect squares +-1, 2^63, u64::MAX, random): gather_bytes vs the shift/or formula; memfrob on buffers of 0-256 bytes inside a canary arena (exactly len bytes XOR 0x2a, neighbours untouched, twice = identity, returns 0); strcmp on NUL-terminated strings with common prefixes (0 iff equal, |a-b| of the first differing bytes, all-ones for a null pointer), on heap buffers and - in a forked child - on strings whose terminators lie 0-2000 bytes before the end of a page that is followed by a differently filled page or by an inaccessible one (a fault is a violation); memfrob likewise on buffers that end 0-2000 bytes before an inaccessible page; sqrti vs (x as f64).sqrt() truncated and vs the exact integer square root below 2^52, on boundary pools, on k^2 +- d for k of every bit length, and on values that are both within a few ulps of a square and one below / on / one above a rounding tie of the u64 -> f64 conversion; bpf_trace_printf with fd 1 redirected to a pipe (return value == number of bytes read from the pipe, text == the three hexadecimal numbers); rand(min,max) in [min,max] when min<max; none may panic. Non-trivial = tuple with a value >= 2^32 or a buffer of >= 1 byte; distinct by hash of (helper, arguments).",
            assumptions: &["println! writes through file descriptor 1 of the process", "bpf_ktime_getns is not part of the property"],
        },
        run,
        replay,
        single_worker: false,
    }
}

fn big() -> impl Strategy<Value = u64> {
    let mut pool: Vec<u64> = vec![0, 1, 2, 3, 15, 16, 17, 255, 256, 0xffff, 0x10000, u32::MAX as u64, 1 << 32, (1 << 32) + 1, (1 << 52) - 1, 1 << 52, (1 << 52) + 1, 1 << 53, (1 << 53) + 1, 1 << 63, (1 << 63) - 1, u64::MAX, u64::MAX - 1];
    for k in 1..16 {
        pool.push(1u64 << (4 * k));
        pool.push((1u64 << (4 * k)) - 1);
    }
    for r in [2u64, 3, 10, 255, 65535, 65536, 94906265, 94906266, 3037000499, 4294967295] {
        let sq = r.wrapping_mul(r);
        pool.extend_from_slice(&[sq, sq.wrapping_sub(1), sq.wrapping_add(1)]);
    }
    prop_oneof![
        3 => prop::sample::select(pool),
        3 => any::<u64>(),
        1 => (0u32..64, any::<u64>()).prop_map(|(s, x)| x >> s),
    ]
}

/// Arguments for sqrti: the result changes at perfect squares and the u64 -> f64 conversion rounds
/// (from 2^53 on) at half-way points between representable doubles - generate both kinds of
/// boundary, and their combination: values just below / above a square k^2 (k of every bit length)
/// that sit one below, exactly on and one above a rounding tie, with either parity of the kept bit.
fn sqrt_arg() -> impl Strategy<Value = u64> {
    let k = (1u32..=32, any::<u32>()).prop_map(|(bits, r)| ((r as u64) | 1 << 31) >> (32 - bits)).boxed();
    prop_oneof![
        2 => big(),
        2 => (k.clone(), -4200i64..=4200).prop_map(|(k, d)| (k * k).wrapping_add(d as u64)),
        3 => (k, any::<u16>(), 0u64..3, any::<bool>()).prop_map(|(k, d, t, above)| {
            let sq = k * k;
            let span = |x: u64| -> u64 {
                let e = 63 - x.max(1).leading_zeros() as u64;
                if e < 53 { 1 } else { 1u64 << (e - 52) }
            };
            let x0 = if above { sq.wrapping_add(d as u64 % (4 * span(sq))) } else { sq.wrapping_sub(1 + d as u64 % (4 * span(sq))) };
            let ulp = span(x0);
            if ulp == 1 {
                return x0;
            }
            (x0 & !(ulp - 1)).wrapping_add(ulp / 2).wrapping_add(t).wrapping_sub(1)
        }),
    ]
}

#[derive(Clone, Debug)]
pub enum HCase {
    Gather([u64; 5]),
    Memfrob { buf: Vec<u8>, start: usize, len: usize },
    Strcmp { a: Vec<u8>, b: Vec<u8>, null_a: bool, null_b: bool },
    Sqrti(u64),
    /// strings placed in two guard-page arenas (two pages + PROT_NONE): the terminator of each
    /// lies `d` bytes before the end of page `k` (d = 0: last byte of the page; k = 1: the next
    /// page is inaccessible)
    StrcmpAt { a: Vec<u8>, b: Vec<u8>, ak: u8, ad: u16, bk: u8, bd: u16 },
    /// buffer whose last byte lies `d` bytes before an inaccessible page
    MemfrobAt { buf: Vec<u8>, d: u16 },
    Printf([u64; 3]),
    Rand(u64, u64, u8),
}

fn cstr() -> impl Strategy<Value = Vec<u8>> {
    prop::collection::vec(prop_oneof![3 => 1u8..=255, 2 => prop::sample::select(vec![b'a', b'b', 1u8, 255u8, 0x2a])], 0..12)
}

fn page_dist() -> impl Strategy<Value = u16> {
    prop_oneof![4 => Just(0u16), 3 => 1u16..9, 1 => 9u16..64, 1 => 64u16..2000]
}

fn hcase() -> impl Strategy<Value = HCase> {
    prop_oneof![
        2 => [big(), big(), big(), big(), big()].prop_map(HCase::Gather),
        2 => (prop::collection::vec(any::<u8>(), 0..256), any::<u16>(), any::<u16>()).prop_map(|(buf, a, b)| {
            let n = buf.len();
            let start = (a as usize * (n + 1)) >> 16;
            let len = (b as usize * (n - start + 1)) >> 16;
            HCase::Memfrob { buf, start, len }
        }),
        3 => (cstr(), cstr(), any::<u8>(), 0u8..20, 0u8..20).prop_map(|(a, mut b, share, na, nb)| {
            // common prefix: copy a prefix of a into b
            let k = (share as usize * (a.len() + 1)) >> 8;
            let mut nb2 = a[..k].to_vec();
            if share & 1 == 0 {
                nb2.extend_from_slice(&b);
            }
            b = nb2;
            HCase::Strcmp { a, b, null_a: na == 0, null_b: nb == 0 }
        }),
        3 => sqrt_arg().prop_map(HCase::Sqrti),
        1 => (cstr(), cstr(), any::<u8>(), 0u8..2, page_dist(), 0u8..2, page_dist()).prop_map(|(a, mut b, share, ak, ad, bk, bd)| {
            let k = (share as usize * (a.len() + 1)) >> 8;
            let mut nb2 = a[..k].to_vec();
            if share & 3 != 0 {
                nb2.extend_from_slice(&b);
            }
            b = nb2;
            if share & 3 == 1 {
                b = a.clone();
            }
            HCase::StrcmpAt { a, b, ak, ad, bk, bd }
        }),
        1 => (prop::collection::vec(any::<u8>(), 0..64), page_dist()).prop_map(|(buf, d)| HCase::MemfrobAt { buf, d }),
        1 => [big(), big(), big()].prop_map(HCase::Printf),
        2 => (big(), big(), any::<u8>()).prop_map(|(a, b, k)| HCase::Rand(a, b, k)),
    ]
}

fn isqrt(x: u64) -> u64 {
    if x == 0 {
        return 0;
    }
    let mut r = (x as f64).sqrt() as u64;
    while (r as u128) * (r as u128) > x as u128 {
        r -= 1;
    }
    while ((r + 1) as u128) * ((r + 1) as u128) <= x as u128 {
        r += 1;
    }
    r
}

/// Run `f` with file descriptor 1 redirected into a pipe; returns what was written.
fn capture_stdout(f: impl FnOnce() -> u64 + std::panic::UnwindSafe) -> (Result<u64, String>, Vec<u8>) {
    unsafe {
        let _ = std::io::stdout().flush();
        let mut fds = [0i32; 2];
        if libc::pipe(fds.as_mut_ptr()) != 0 {
            return (Err("pipe failed".into()), vec![]);
        }
        let saved = libc::dup(1);
        libc::dup2(fds[1], 1);
        let r = catch(f);
        let _ = std::io::stdout().flush();
        libc::dup2(saved, 1);
        libc::close(saved);
        libc::close(fds[1]);
        let mut out = Vec::new();
        let mut buf = [0u8; 4096];
        loop {
            let n = libc::read(fds[0], buf.as_mut_ptr() as *mut libc::c_void, buf.len());
            if n <= 0 {
                break;
            }
            out.extend_from_slice(&buf[..n as usize]);
        }
        libc::close(fds[0]);
        (r, out)
    }
}

/// Values for the arguments a helper does not use ("for all u64 argument tuples"): small numbers,
/// boundary values and a hash, chosen by the case's own content.
fn unused_args(seed: u64) -> [u64; 4] {
    let pool = [0u64, 1, 2, 3, 4, 5, 7, 8, 16, 64, 255, 4096, u64::MAX, 1 << 63, 0x2a];
    let mut out = [0u64; 4];
    let mut h = seed ^ 0x9e37_79b9_7f4a_7c15;
    for o in out.iter_mut() {
        h = splitmix(h);
        *o = if h & 3 == 0 { splitmix(h) } else { pool[(h >> 8) as usize % pool.len()] };
    }
    out
}

pub fn check(c: &HCase) -> Verdict {
    match c {
        HCase::Gather(a) => {
            let a = *a;
            let want = (a[0] << 32) | (a[1] << 24) | (a[2] << 16) | (a[3] << 8) | a[4];
            match catch(move || helpers::gather_bytes(a[0], a[1], a[2], a[3], a[4])) {
                Err(m) => Verdict::fail(format!("gather_bytes:{}", panic_signature(&m)), format!("gather_bytes{a:?} panicked: {m}")),
                Ok(g) if g != want => Verdict::fail("gather_bytes:value", format!("gather_bytes{a:x?} = {g:#x}, formula gives {want:#x}")),
                Ok(_) => Verdict::Pass,
            }
        }
        HCase::Memfrob { buf, start, len } => {
            const CANARY: usize = 32;
            let mut arena = vec![0xc5u8; CANARY + buf.len() + CANARY];
            arena[CANARY..CANARY + buf.len()].copy_from_slice(buf);
            let before = arena.clone();
            let ptr = arena.as_mut_ptr() as u64 + (CANARY + start) as u64;
            let l = *len as u64;
            let u = unused_args(fnv(buf) ^ *start as u64);
            let r = match catch(move || helpers::memfrob(ptr, l, u[0], u[1], u[2])) {
                Ok(r) => r,
                Err(m) => return Verdict::fail(format!("memfrob:{}", panic_signature(&m)), format!("memfrob panicked: {m}")),
            };
            if r != 0 {
                return Verdict::fail("memfrob:return", format!("memfrob returned {r}"));
            }
            for (i, (x, y)) in arena.iter().zip(before.iter()).enumerate() {
                let inside = i >= CANARY + start && i < CANARY + start + len;
                let want = if inside { y ^ 0x2a } else { *y };
                if *x != want {
                    return Verdict::fail("memfrob:bytes", format!("memfrob(buf+{start}, {len}) on a {}-byte buffer: byte at buffer offset {} is {x:#x}, expected {want:#x}", buf.len(), i as i64 - CANARY as i64));
                }
            }
            let _ = helpers::memfrob(ptr, l, 0, 0, 0);
            if arena != before {
                return Verdict::fail("memfrob:involution", "applying memfrob twice did not restore the buffer".to_string());
            }
            Verdict::Pass
        }
        HCase::Strcmp { a, b, null_a, null_b } => {
            let mut sa = a.clone();
            sa.push(0);
            sa.extend_from_slice(&[0x77; 8]);
            let mut sb = b.clone();
            sb.push(0);
            sb.extend_from_slice(&[0x55; 8]);
            let pa = if *null_a { 0 } else { sa.as_ptr() as u64 };
            let pb = if *null_b { 0 } else { sb.as_ptr() as u64 };
            let u = unused_args(fnv(a) ^ fnv(b).rotate_left(7));
            let got = match catch(move || helpers::strcmp(pa, pb, u[0], u[1], u[2])) {
                Ok(g) => g,
                Err(m) => return Verdict::fail(format!("strcmp:{}", panic_signature(&m)), format!("strcmp({a:?}, {b:?}) panicked: {m}")),
            };
            let want = if *null_a || *null_b {
                u64::MAX
            } else {
                let mut i = 0;
                loop {
                    let (x, y) = (sa[i], sb[i]);
                    if x != y || x == 0 {
                        break (x as i64 - y as i64).unsigned_abs();
                    }
                    i += 1;
                }
            };
            if got != want {
                return Verdict::fail("strcmp:value", format!("strcmp({a:?}, {b:?}) null=({null_a},{null_b}) = {got:#x}, expected {want:#x}"));
            }
            Verdict::Pass
        }
        HCase::StrcmpAt { a, b, ak, ad, bk, bd } => {
            use crate::runner::{Arena, PAGE};
            thread_local! {
                static ARENAS: (Arena, Arena) = (Arena::new(2, false), Arena::new(2, false));
            }
            ARENAS.with(|(aa, ab)| unsafe {
                let place = |ar: &Arena, s: &[u8], k: u8, d: u16, salt: u8| -> (u64, Vec<u8>) {
                    let base = ar.data_start();
                    for i in 0..2 * PAGE {
                        *base.add(i) = (i as u8).wrapping_mul(37).wrapping_add(salt) | 1;
                    }
                    let term = (PAGE * (k as usize % 2 + 1) - 1).saturating_sub(d as usize).max(s.len());
                    let start = term - s.len();
                    std::ptr::copy_nonoverlapping(s.as_ptr(), base.add(start), s.len());
                    *base.add(term) = 0;
                    (base.add(start) as u64, std::slice::from_raw_parts(base, 2 * PAGE).to_vec())
                };
                let (pa, img_a) = place(aa, a, *ak, *ad, 0x11);
                let (pb, img_b) = place(ab, b, *bk, *bd, 0x9d);
                let mut i = 0;
                let want = loop {
                    let (x, y) = (a.get(i).copied().unwrap_or(0), b.get(i).copied().unwrap_or(0));
                    if x != y || x == 0 {
                        break (x as i64 - y as i64).unsigned_abs();
                    }
                    i += 1;
                };
                let u = unused_args(fnv(a) ^ fnv(b).rotate_left(9) ^ *ad as u64);
                let r = super::fork_call(|| (1, helpers::strcmp(pa, pb, u[0], u[1], u[2])));
                let desc = || format!("strcmp({a:?}, {b:?}) with the terminators {} / {} bytes before the end of page {} / {} of two 2-page buffers followed by inaccessible pages (addresses {pa:#x}, {pb:#x})", ad, bd, ak % 2, bk % 2);
                match r {
                    Err(sig) => Verdict::fail(format!("strcmp:signal-{sig}"), format!("{} died with signal {sig} (0 = no result): it read outside the strings", desc())),
                    Ok((u32::MAX, _)) => Verdict::fail("strcmp:panic", format!("{} panicked", desc())),
                    Ok((_, got)) if got != want => Verdict::fail("strcmp:value", format!("{} = {got:#x}, expected {want:#x}", desc())),
                    Ok(_) => {
                        if std::slice::from_raw_parts(aa.data_start(), 2 * PAGE) != &img_a[..] || std::slice::from_raw_parts(ab.data_start(), 2 * PAGE) != &img_b[..] {
                            return Verdict::fail("strcmp:writes", format!("{} changed memory", desc()));
                        }
                        Verdict::Pass
                    }
                }
            })
        }
        HCase::MemfrobAt { buf, d } => {
            use crate::runner::{Arena, PAGE};
            thread_local! {
                static ARENA: Arena = Arena::new(1, true);
            }
            ARENA.with(|ar| unsafe {
                let base = ar.data_start();
                for i in 0..PAGE {
                    *base.add(i) = (i as u8).wrapping_mul(29) | 0x80;
                }
                let end = PAGE - (*d as usize).min(PAGE - buf.len());
                let start = end - buf.len();
                std::ptr::copy_nonoverlapping(buf.as_ptr(), base.add(start), buf.len());
                let before = std::slice::from_raw_parts(base, PAGE).to_vec();
                let (ptr, len) = (base.add(start) as u64, buf.len() as u64);
                // the arena is MAP_SHARED: the child's writes are visible here
                let u = unused_args(fnv(buf) ^ *d as u64);
                let r = super::fork_call(|| (1, helpers::memfrob(ptr, len, u[0], u[1], u[2])));
                let after = std::slice::from_raw_parts(base, PAGE);
                let desc = || format!("memfrob on a {}-byte buffer whose last byte lies {} bytes before an inaccessible page", buf.len(), PAGE - end);
                match r {
                    Err(sig) => Verdict::fail(format!("memfrob:signal-{sig}"), format!("{} died with signal {sig}: it touched memory outside the buffer", desc())),
                    Ok((u32::MAX, _)) => Verdict::fail("memfrob:panic", format!("{} panicked", desc())),
                    Ok((_, ret)) if ret != 0 => Verdict::fail("memfrob:return", format!("{} returned {ret}", desc())),
                    Ok(_) => {
                        for i in 0..PAGE {
                            let want = if i >= start && i < end { before[i] ^ 0x2a } else { before[i] };
                            if after[i] != want {
                                return Verdict::fail("memfrob:bytes", format!("{}: byte at buffer offset {} is {:#x}, expected {want:#x}", desc(), i as i64 - start as i64, after[i]));
                            }
                        }
                        Verdict::Pass
                    }
                }
            })
        }
        HCase::Sqrti(x) => {
            let x = *x;
            let u = unused_args(x);
            let got = match catch(move || helpers::sqrti(x, u[0], u[1], u[2], u[3])) {
                Ok(g) => g,
                Err(m) => return Verdict::fail(format!("sqrti:{}", panic_signature(&m)), format!("sqrti({x}) panicked: {m}")),
            };
            let want = (x as f64).sqrt() as u64;
            if got != want {
                return Verdict::fail("sqrti:value", format!("sqrti({x}) = {got}, truncated double-precision square root is {want}"));
            }
            if x < (1 << 52) && got != isqrt(x) {
                return Verdict::fail("sqrti:exact", format!("sqrti({x}) = {got}, exact integer square root is {}", isqrt(x)));
            }
            Verdict::Pass
        }
        HCase::Printf(a) => {
            let a = *a;
            let (r, out) = capture_stdout(move || helpers::bpf_trace_printf(11, 22, a[0], a[1], a[2]));
            let r = match r {
                Ok(r) => r,
                Err(m) => return Verdict::fail(format!("bpf_trace_printf:{}", panic_signature(&m)), format!("bpf_trace_printf{a:x?} panicked: {m}")),
            };
            let want = format!("bpf_trace_printf: {:#x}, {:#x}, {:#x}\n", a[0], a[1], a[2]);
            if out != want.as_bytes() {
                return Verdict::fail("bpf_trace_printf:text", format!("printed {:?}, expected {want:?}", String::from_utf8_lossy(&out)));
            }
            if r != out.len() as u64 {
                return Verdict::fail("bpf_trace_printf:return", format!("bpf_trace_printf(.., {:#x}, {:#x}, {:#x}) returned {r} but printed {} bytes", a[0], a[1], a[2], out.len()));
            }
            Verdict::Pass
        }
        HCase::Rand(a, b, k) => {
            let (mut min, mut max) = (*a, *b);
            match k % 4 {
                0 => max = min.wrapping_add(1),
                1 => {
                    if min > max {
                        std::mem::swap(&mut min, &mut max)
                    }
                }
                _ => {}
            }
            for _ in 0..4 {
                let u = unused_args(min ^ max.rotate_left(17));
                let got = match catch(move || helpers::rand(min, max, u[0], u[1], u[2])) {
                    Ok(g) => g,
                    Err(m) => return Verdict::fail(format!("rand:{}", panic_signature(&m)), format!("rand({min}, {max}) panicked: {m}")),
                };
                if min < max && !(min <= got && got <= max) {
                    return Verdict::fail("rand:range", format!("rand({min}, {max}) = {got}"));
                }
            }
            Verdict::Pass
        }
    }
}

fn to_json(c: &HCase) -> Value {
    match c {
        HCase::Gather(a) => json!({"helper": "gather_bytes", "args": a.iter().map(|x| x.to_string()).collect::<Vec<_>>()}),
        HCase::Memfrob { buf, start, len } => json!({"helper": "memfrob", "buf": crate::isa::hex(buf), "start": start, "len": len}),
        HCase::Strcmp { a, b, null_a, null_b } => json!({"helper": "strcmp", "a": crate::isa::hex(a), "b": crate::isa::hex(b), "null_a": null_a, "null_b": null_b}),
        HCase::Sqrti(x) => json!({"helper": "sqrti", "x": x.to_string()}),
        HCase::StrcmpAt { a, b, ak, ad, bk, bd } => json!({"helper": "strcmp-at", "a": a, "b": b, "ak": ak, "ad": ad, "bk": bk, "bd": bd}),
        HCase::MemfrobAt { buf, d } => json!({"helper": "memfrob-at", "buf": buf, "d": d}),
        HCase::Printf(a) => json!({"helper": "bpf_trace_printf", "args": a.iter().map(|x| x.to_string()).collect::<Vec<_>>()}),
        HCase::Rand(a, b, k) => json!({"helper": "rand", "min": a.to_string(), "max": b.to_string(), "k": k}),
    }
}

fn from_json(v: &Value) -> Option<HCase> {
    let num = |x: &Value| x.as_str().and_then(|s| s.parse::<u64>().ok()).or(x.as_u64()).unwrap_or(0);
    let args = |n: usize| -> Vec<u64> { (0..n).map(|i| num(&v["args"][i])).collect() };
    Some(match v["helper"].as_str()? {
        "gather_bytes" => {
            let a = args(5);
            HCase::Gather([a[0], a[1], a[2], a[3], a[4]])
        }
        "memfrob" => HCase::Memfrob { buf: crate::isa::unhex(v["buf"].as_str()?), start: v["start"].as_u64()? as usize, len: v["len"].as_u64()? as usize },
        "strcmp" => HCase::Strcmp { a: crate::isa::unhex(v["a"].as_str()?), b: crate::isa::unhex(v["b"].as_str()?), null_a: v["null_a"].as_bool()?, null_b: v["null_b"].as_bool()? },
        "sqrti" => HCase::Sqrti(num(&v["x"])),
        "strcmp-at" => HCase::StrcmpAt {
            a: v["a"].as_array()?.iter().map(|x| x.as_u64().unwrap_or(1) as u8).collect(),
            b: v["b"].as_array()?.iter().map(|x| x.as_u64().unwrap_or(1) as u8).collect(),
            ak: v["ak"].as_u64()? as u8,
            ad: v["ad"].as_u64()? as u16,
            bk: v["bk"].as_u64()? as u8,
            bd: v["bd"].as_u64()? as u16,
        },
        "memfrob-at" => HCase::MemfrobAt { buf: v["buf"].as_array()?.iter().map(|x| x.as_u64().unwrap_or(0) as u8).collect(), d: v["d"].as_u64()? as u16 },
        "bpf_trace_printf" => {
            let a = args(3);
            HCase::Printf([a[0], a[1], a[2]])
        }
        "rand" => HCase::Rand(num(&v["min"]), num(&v["max"]), v["k"].as_u64().unwrap_or(2) as u8),
        _ => return None,
    })
}

fn run(ctx: &Ctx) {
    ctx.shrink_iters.set(20_000);
    let cases = ctx.share(ctx.tier.pick(2_400_000, 48_000_000));
    ctx.search("helpers", "helper", cases, hcase(), |c, want_case| {
        let v = check(c);
        if !want_case {
            let mut st = ctx.stats();
            st.eval();
            let (name, nontriv) = match c {
                HCase::Gather(a) => ("gather_bytes", a.iter().any(|x| *x >= 1 << 32)),
                HCase::Memfrob { len, .. } => ("memfrob", *len >= 1),
                HCase::Strcmp { a, b, .. } => ("strcmp", !a.is_empty() || !b.is_empty()),
                HCase::Sqrti(x) => ("sqrti", *x >= 1 << 32),
                HCase::StrcmpAt { ad, bd, .. } => (if *ad == 0 || *bd == 0 { "strcmp:terminator-on-last-byte-of-a-page" } else { "strcmp:placed-near-page-end" }, true),
                HCase::MemfrobAt { d, .. } => (if *d == 0 { "memfrob:buffer-ends-at-inaccessible-page" } else { "memfrob:placed-near-page-end" }, true),
                HCase::Printf(a) => ("bpf_trace_printf", a.iter().any(|x| *x >= 1 << 32)),
                HCase::Rand(a, b, _) => ("rand", *a >= 1 << 32 || *b >= 1 << 32),
            };
            st.class(name);
            if let HCase::Sqrti(x) = c {
                if *x >= 1 << 53 {
                    let ulp = 1u64 << (63 - x.leading_zeros() as u64 - 52);
                    let r = x & (ulp - 1);
                    if r + 1 >= ulp / 2 && r <= ulp / 2 + 1 {
                        st.class("sqrti:at-conversion-tie+-1");
                        let k = isqrt(*x);
                        if ((k as u128 + 1) * (k as u128 + 1) - *x as u128) <= 4 * ulp as u128 || x - k * k <= 4 * ulp {
                            st.class("sqrti:at-conversion-tie-and-near-square");
                        }
                    }
                }
            }
            if nontriv {
                st.nontrivial(fnv_str(&format!("{c:?}")));
            }
            if st.samples.iter().filter(|s| s["helper"] == name).count() == 0 {
                st.sample(12, || to_json(c));
            }
        }
        (v, if want_case { to_json(c) } else { Value::Null })
    });
}

fn replay(_ctx: &Ctx, _kind: &str, case: &Value) -> Verdict {
    match from_json(case) {
        Some(c) => check(&c),
        None => Verdict::Discard("bad-replay"),
    }
}
