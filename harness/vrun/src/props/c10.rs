//! C10 - loading, verifying and compiling stay consistent over any history of API calls.
//! Model-based (stateful) testing: a generated history of API calls is executed on a real VM in a
//! forked child; the parent replays it on an abstract state machine and checks every step.

use super::{catch, PropDef};
use crate::engine::*;
use crate::execcheck::model_run;
use crate::isa::{self, *};
use crate::model::{MOut, Quirks};
use crate::refver;
use crate::runner::{pool_fn, Arena, Engine, ExecCase, VmKind, PAGE};
use crate::vmx::AnyVm;
use proptest::prelude::*;
use serde_json::{json, Value};
use std::cell::RefCell;

pub fn def() -> PropDef {
    PropDef {
        info: PropInfo {
            id: "C10",
            rule: "histories: new(None | program) followed by 1-30 operations over {set_program(valid | default-invalid | valid-only-under-another-verifier, with new offsets for the fixed-metadata VM), set_verifier(reference-equivalent | accept-all | reject-all | custom 'first immediate must be even'), register_helper (an id may be bound again, to the same or to another function), set_stack_usage_calculator, jit_compile, cranelift_compile, execute, execute_jit, execute_cranelift with one of three packets or - in histories that never load a packet-reading program - the empty packet} on each of the four VM kinds; programs come from a pool of tiny well-defined programs returning distinct values (constants, helper results, a packet byte, the frame size seen by a local function and by a function nested two calls deep (under a stack-usage calculator that depends on its data, on the program and on the pc), the packet length through the fixed VM's offsets - the program of the largest layout also adds up the spare words of its buffer, which are zero after every load). Oracle: abstract VM state machine (loaded program, verifier in force, helpers, what each compiler compiled and under which helpers / calculator, offsets); after EVERY step Ok/Err and the value are compared with the model; after a successful reload compiled code may only be 'not compiled' (Err) or the NEW program's value; a failing set_program / set_verifier must leave every later observation unchanged. Non-trivial = history with a reload after a compile, a failed load on a configured VM, or >= 2 executions; distinct by hash of the history.",
            assumptions: &["the crate's default verifier is not exported: the 'default' verifier re-installed by set_verifier is the harness's reference verifier (equivalent by C06)", "compilation of programs that the default verifier would reject (loaded under accept-all) is not exercised with Cranelift", "helper ids are always bound to the same function within one history (re-binding an id after a JIT compilation is documented to be unsupported)"],
        },
        run,
        replay,
        single_worker: false,
    }
}

// ---- program pool ----------------------------------------------------------------------------

#[derive(Clone, Copy, Debug, PartialEq, Eq)]
pub enum PKind {
    Const,
    Helper(u32),
    PktByte,
    Frame,
    /// main -> f -> g, g returns the frame size of f (nested local calls)
    Nest,
    FixedLen(u8),
    /// rejected by the default verifier (trailing instruction after exit) but harmless to run
    Invalid,
    /// rejected by the default verifier: a local call in dead code whose target lies far outside
    /// the program. Harmless to interpret; the x86-64 JIT is not expected to cope with it.
    InvalidCall,
}

const OFFSETS: [(usize, usize); 3] = [(0, 8), (8, 0), (16, 40)];

fn asm(lines: &[Insn]) -> Vec<u8> {
    encode_prog(lines)
}

/// (kind, bytes). The first immediate's parity decides acceptance by the custom verifier.
pub fn pool() -> Vec<(PKind, Vec<u8>)> {
    let mov = |r: u8, v: i32| Insn::new(alu_opc(true, ALU_MOV, false), r, 0, 0, v);
    let exit = Insn::new(EXIT, 0, 0, 0, 0);
    let mut v = vec![
        (PKind::Const, asm(&[mov(0, 11), exit])),
        (PKind::Const, asm(&[mov(0, 22), exit])),
        (PKind::Const, asm(&[mov(0, 0), Insn::new(alu_opc(true, ALU_ADD, false), 0, 0, 0, 33), exit])),
        (PKind::Const, asm(&[mov(0, 77), Insn::new(alu_opc(false, ALU_LSH, false), 0, 0, 0, 3), exit])),
        (PKind::Helper(1), asm(&[mov(1, 5), mov(2, 6), mov(3, 7), mov(4, 8), mov(5, 9), Insn::new(CALL, 0, 0, 0, 1), exit])),
        (PKind::Helper(2), asm(&[mov(1, 4), mov(2, 6), mov(3, 7), mov(4, 8), mov(5, 9), Insn::new(CALL, 0, 0, 0, 2), exit])),
        (PKind::PktByte, asm(&[Insn::new(ldabs_opc(1), 0, 0, 0, 0), Insn::new(alu_opc(true, ALU_ADD, false), 0, 0, 0, 1000), exit])),
        (PKind::PktByte, asm(&[Insn::new(ldabs_opc(1), 0, 0, 0, 1), Insn::new(alu_opc(true, ALU_ADD, false), 0, 0, 0, 2000), exit])),
        (
            PKind::Frame,
            asm(&[mov(0, 2), Insn::new(alu_opc(true, ALU_MOV, true), 5, 10, 0, 0), Insn::new(CALL, 0, 1, 0, 1), exit, Insn::new(alu_opc(true, ALU_MOV, true), 0, 5, 0, 0), Insn::new(alu_opc(true, ALU_SUB, true), 0, 10, 0, 0), exit]),
        ),
        (
            PKind::Nest,
            asm(&[mov(0, 2), Insn::new(CALL, 0, 1, 0, 1), exit, Insn::new(alu_opc(true, ALU_MOV, true), 6, 10, 0, 0), Insn::new(CALL, 0, 1, 0, 1), exit, Insn::new(alu_opc(true, ALU_MOV, true), 0, 6, 0, 0), Insn::new(alu_opc(true, ALU_SUB, true), 0, 10, 0, 0), exit]),
        ),
        (
            // same functions at the same positions, one more (dead) instruction: a calculator that
            // looks at the program gives other frame sizes
            PKind::Nest,
            asm(&[mov(0, 4), Insn::new(CALL, 0, 1, 0, 1), exit, Insn::new(alu_opc(true, ALU_MOV, true), 6, 10, 0, 0), Insn::new(CALL, 0, 1, 0, 1), exit, Insn::new(alu_opc(true, ALU_MOV, true), 0, 6, 0, 0), Insn::new(alu_opc(true, ALU_SUB, true), 0, 10, 0, 0), exit, exit]),
        ),
        (PKind::Invalid, asm(&[mov(0, 44), exit, mov(0, 45)])),
        (PKind::InvalidCall, asm(&[mov(0, 55), exit, Insn::new(CALL, 0, 1, 0, 1000)])),
    ];
    for (k, (d, e)) in OFFSETS.iter().enumerate() {
        // r0 = *(r1+E) - *(r1+D) + 3000 (+k): the packet length through the configured offsets
        let mut p = vec![
            mov(0, 3000 + 2 * k as i32),
            Insn::new(ldx_opc(8), 2, 1, *d as i16, 0),
            Insn::new(ldx_opc(8), 3, 1, *e as i16, 0),
            Insn::new(alu_opc(true, ALU_ADD, true), 0, 3, 0, 0),
            Insn::new(alu_opc(true, ALU_SUB, true), 0, 2, 0, 0),
        ];
        if *d.max(e) >= 40 {
            // the buffer of this layout has spare words, at the offsets the other layouts keep
            // their pointers at: they are zero in the buffer a (re)load creates, whatever an
            // earlier program of this VM object left there
            for spare in (0..*d.max(e) as i16).step_by(8).filter(|o| *o as usize != *d && *o as usize != *e) {
                p.push(Insn::new(ldx_opc(8), 4, 1, spare, 0));
                p.push(Insn::new(alu_opc(true, ALU_ADD, true), 0, 4, 0, 0));
            }
        }
        p.push(exit);
        v.push((PKind::FixedLen(k as u8), asm(&p)));
    }
    v
}

fn first_imm_even(prog: &[u8]) -> bool {
    prog.len() >= 8 && ref_decode(&prog[..8]).imm % 2 == 0
}

fn v_ref(prog: &[u8]) -> Result<(), std::io::Error> {
    if refver::violations(prog).is_empty() {
        Ok(())
    } else {
        Err(std::io::Error::other("reference verifier: rejected"))
    }
}
fn v_accept(_prog: &[u8]) -> Result<(), std::io::Error> {
    Ok(())
}
fn v_reject(_prog: &[u8]) -> Result<(), std::io::Error> {
    Err(std::io::Error::other("reject-all verifier"))
}
fn v_even(prog: &[u8]) -> Result<(), std::io::Error> {
    v_ref(prog)?;
    if first_imm_even(prog) {
        Ok(())
    } else {
        Err(std::io::Error::other("custom verifier: first immediate is odd"))
    }
}

#[derive(Clone, Copy, Debug, PartialEq, Eq)]
pub enum VSel {
    Default,
    Accept,
    Reject,
    Even,
}

fn verifier_fn(v: VSel) -> rbpf::Verifier {
    match v {
        VSel::Default => v_ref,
        VSel::Accept => v_accept,
        VSel::Reject => v_reject,
        VSel::Even => v_even,
    }
}

fn accepts(v: VSel, prog: &[u8]) -> bool {
    verifier_fn(v)(prog).is_ok()
}

// ---- histories -------------------------------------------------------------------------------

#[derive(Clone, Debug, PartialEq, Eq)]
pub enum Op {
    SetProgram { p: u8, offs: u8 },
    SetVerifier(u8),
    RegisterHelper(u8),
    SetCalc(u8),
    JitCompile,
    CraneliftCompile,
    Exec { engine: u8, pkt: u8 },
}

#[derive(Clone, Debug)]
pub struct History {
    kind: u8,
    init_offs: u8,
    init: Option<u8>,
    ops: Vec<Op>,
}

fn op() -> impl Strategy<Value = Op> {
    prop_oneof![
        5 => (any::<u8>(), 0u8..3).prop_map(|(p, offs)| Op::SetProgram { p, offs }),
        2 => (0u8..4).prop_map(Op::SetVerifier),
        2 => (1u8..3, 0u8..3).prop_map(|(id, v)| Op::RegisterHelper(id | v << 4)),
        1 => (0u8..3).prop_map(Op::SetCalc),
        3 => Just(Op::JitCompile),
        2 => Just(Op::CraneliftCompile),
        8 => (0u8..3, 0u8..4).prop_map(|(engine, pkt)| Op::Exec { engine, pkt }),
    ]
}

pub fn history() -> impl Strategy<Value = History> {
    (0u8..4, 0u8..3, prop_oneof![1 => Just(None), 3 => any::<u8>().prop_map(Some)], prop::collection::vec(op(), 1..30))
        .prop_map(|(kind, init_offs, init, ops)| History { kind, init_offs, init, ops })
}

fn vm_kind(kind: u8, offs: u8) -> VmKind {
    let (d, e) = OFFSETS[offs as usize % 3];
    match kind % 4 {
        0 => VmKind::NoData,
        1 => VmKind::Raw,
        2 => VmKind::Mbuff { data_off: 0, end_off: 8 },
        _ => VmKind::Fixed { data_off: d, end_off: e },
    }
}

/// Programs usable on a VM kind (packet programs need a packet, offset programs the fixed VM).
fn usable(kind: u8, pk: PKind) -> bool {
    match pk {
        PKind::PktByte => kind % 4 != 0,
        PKind::FixedLen(_) => kind % 4 == 3,
        _ => true,
    }
}

fn pick_prog(pool: &[(PKind, Vec<u8>)], kind: u8, sel: u8) -> usize {
    let cands: Vec<usize> = (0..pool.len()).filter(|i| usable(kind, pool[*i].0)).collect();
    cands[sel as usize % cands.len()]
}

const PKTS: [&[u8]; 4] = [&[0x10, 0x20, 0x30], &[0x41, 0x42, 0x43, 0x44, 0x45, 0x46, 0x47, 0x48, 0x49], &[0x7f; 40], &[]];
const CALCS: [u16; 3] = [64, 8, 160];

#[repr(C)]
#[derive(Clone, Copy)]
struct Rec {
    /// 0 = not reached, 1 = Ok, 2 = Err, 3 = panic
    status: u32,
    value: u64,
}

#[repr(C)]
struct Shared10 {
    stage: u32,
    init_status: u32,
    recs: [Rec; 32],
}

pub struct Mem10 {
    pkt: Arena,
    mbuff: Arena,
    shared: *mut Shared10,
}

impl Mem10 {
    pub fn new() -> Mem10 {
        unsafe {
            let p = libc::mmap(std::ptr::null_mut(), PAGE, libc::PROT_READ | libc::PROT_WRITE, libc::MAP_ANONYMOUS | libc::MAP_SHARED, -1, 0);
            assert!(p != libc::MAP_FAILED);
            Mem10 { pkt: Arena::new(1, false), mbuff: Arena::new(1, false), shared: p as *mut Shared10 }
        }
    }
    fn pkt_addr(&self, i: usize) -> u64 {
        self.pkt.data_start() as u64 + 512 * i as u64
    }
}

/// The stack-usage calculator of the histories depends on its data, on the program and on the pc.
fn frame_formula(base: u16, prog_len: usize, pc: usize) -> u16 {
    base + 8 * ((prog_len / 8) % 4) as u16 + 8 * (pc % 3) as u16
}

fn calc_fn(prog: &[u8], pc: usize, data: &mut dyn std::any::Any) -> u16 {
    let inner: &dyn std::any::Any = match data.downcast_ref::<Box<dyn std::any::Any>>() {
        Some(b) => b.as_ref(),
        None => data,
    };
    frame_formula(*inner.downcast_ref::<u16>().expect("calc data"), prog.len(), pc)
}

const ENGINES: [Engine; 3] = [Engine::Interp, Engine::Jit, Engine::Cranelift];

unsafe fn child(mem: &Mem10, h: &History, progs: &[(PKind, &'static [u8])]) {
    let sh = &mut *mem.shared;
    for (i, p) in PKTS.iter().enumerate() {
        std::ptr::copy_nonoverlapping(p.as_ptr(), mem.pkt_addr(i) as *mut u8, p.len());
    }
    let mb = mem.mbuff.data_start();
    let init_idx = h.init.map(|s| pick_prog_static(progs, h.kind, s));
    let kind = vm_kind(h.kind, init_idx.map(|i| effective_offs(progs[i].0, h.init_offs)).unwrap_or(h.init_offs));
    let init = init_idx.map(|i| progs[i].1);
    let mut vm = match catch(std::panic::AssertUnwindSafe(|| AnyVm::new(kind, init))) {
        Ok(Ok(vm)) => {
            sh.init_status = 1;
            vm
        }
        Ok(Err(_)) => {
            sh.init_status = 2;
            return;
        }
        Err(_) => {
            sh.init_status = 3;
            return;
        }
    };
    for (k, op) in h.ops.iter().enumerate().take(32) {
        sh.stage = k as u32 + 1;
        let r: Result<Result<u64, String>, String> = match op {
            Op::SetProgram { p, offs } => {
                let pi = pick_prog_static(progs, h.kind, *p);
                let prog = progs[pi].1;
                let o = OFFSETS[effective_offs(progs[pi].0, *offs) as usize % 3];
                catch(std::panic::AssertUnwindSafe(|| vm.set_program(prog, o).map(|_| 0)))
            }
            Op::SetVerifier(v) => {
                let v = [VSel::Default, VSel::Accept, VSel::Reject, VSel::Even][*v as usize % 4];
                catch(std::panic::AssertUnwindSafe(|| vm.set_verifier(verifier_fn(v)).map(|_| 0)))
            }
            Op::RegisterHelper(x) => catch(std::panic::AssertUnwindSafe(|| vm.register_helper(helper_pool(*x).0, pool_fn(helper_pool(*x).1)).map(|_| 0))),
            Op::SetCalc(c) => {
                let size = CALCS[*c as usize % 3];
                catch(std::panic::AssertUnwindSafe(|| vm.set_stack_usage_calculator(calc_fn, Box::new(size)).map(|_| 0)))
            }
            Op::JitCompile => catch(std::panic::AssertUnwindSafe(|| vm.jit_compile().map(|_| 0))),
            Op::CraneliftCompile => catch(std::panic::AssertUnwindSafe(|| vm.cranelift_compile().map(|_| 0))),
            Op::Exec { engine, pkt } => {
                let e = ENGINES[*engine as usize % 3];
                let pi = packet_index(h, &progs.iter().map(|p| p.0).collect::<Vec<_>>(), *pkt);
                let (pa, pl) = (mem.pkt_addr(pi) as *mut u8, PKTS[pi].len());
                // user metadata buffer of the metadata VM: pointers to this packet
                if let VmKind::Mbuff { .. } = kind {
                    std::ptr::copy_nonoverlapping((pa as u64).to_le_bytes().as_ptr(), mb, 8);
                    std::ptr::copy_nonoverlapping((pa as u64 + pl as u64).to_le_bytes().as_ptr(), mb.add(8), 8);
                }
                catch(std::panic::AssertUnwindSafe(|| {
                    let pkt: &'static mut [u8] = std::slice::from_raw_parts_mut(pa, pl);
                    let mbs: &'static mut [u8] = std::slice::from_raw_parts_mut(mb, 32);
                    vm.exec(e, pkt, mbs)
                }))
            }
        };
        sh.recs[k] = match r {
            Ok(Ok(v)) => Rec { status: 1, value: v },
            Ok(Err(_)) => Rec { status: 2, value: 0 },
            Err(_) => Rec { status: 3, value: 0 },
        };
    }
    sh.stage = 9999;
}

/// A program that reads the packet pointers through fixed offsets is always loaded together with
/// those offsets (anything else reads outside the buffer, which the unchecked JIT cannot survive).
fn effective_offs(pk: PKind, offs: u8) -> u8 {
    match pk {
        PKind::FixedLen(k) => k,
        _ => offs % 3,
    }
}

/// A register_helper operand: low nibble = id, high nibble = which of the 5-argument pool
/// functions (re-registering an id with another function is part of the history space).
fn helper_pool(op: u8) -> (u32, u8) {
    let (id, variant) = ((op & 15) as u32, op >> 4);
    (id, [0u8, 1, 6][(id as usize + variant as usize) % 3])
}

/// Packet used by an execution: the empty packet (#3) only in histories that never load a program
/// reading packet bytes (the unchecked JIT cannot survive such a read).
fn packet_index(h: &History, kinds: &[PKind], pkt: u8) -> usize {
    let cands: Vec<usize> = (0..kinds.len()).filter(|i| usable(h.kind, kinds[*i])).collect();
    let picks = h.init.iter().copied().chain(h.ops.iter().filter_map(|op| if let Op::SetProgram { p, .. } = op { Some(*p) } else { None }));
    let reads_packet = picks.into_iter().any(|sel| matches!(kinds[cands[sel as usize % cands.len()]], PKind::PktByte));
    if reads_packet {
        pkt as usize % 3
    } else {
        pkt as usize % 4
    }
}

fn pick_prog_static(progs: &[(PKind, &'static [u8])], kind: u8, sel: u8) -> usize {
    let cands: Vec<usize> = (0..progs.len()).filter(|i| usable(kind, progs[*i].0)).collect();
    cands[sel as usize % cands.len()]
}

// ---- abstract state machine ------------------------------------------------------------------

#[derive(Clone, Debug, PartialEq)]
struct Compiled {
    /// no successful set_program since this compilation: execution must succeed
    fresh: bool,
    prog: usize,
    /// (id, pool index of the function registered last under that id)
    helpers: Vec<(u32, u8)>,
    calc: Option<u16>,
    offs: u8,
}

#[derive(Clone, Debug)]
struct MState {
    prog: Option<usize>,
    verifier: VSel,
    /// (id, pool index of the function registered last under that id)
    helpers: Vec<(u32, u8)>,
    calc: Option<u16>,
    offs: u8,
    jit: Option<Compiled>,
    cranelift: Option<Compiled>,
}

/// Expected result of running pool program `p` in the given configuration.
fn expected_value(pool: &[(PKind, Vec<u8>)], kind: u8, p: usize, helpers: &[(u32, u8)], calc: Option<u16>, offs: u8, pkt: usize, pkt_addr: u64) -> MOut {
    let mut case = ExecCase::new(vm_kind(kind, offs), pool[p].1.clone());
    if kind % 4 != 0 {
        case.pkt = PKTS[pkt].to_vec();
    }
    if kind % 4 == 2 {
        case.mbuff = vec![0; 32];
    }
    case.helpers = helpers.to_vec();
    let n = pool[p].1.len();
    case.calc = calc.map(|base| ((0..n / 8).map(|pc| (pc, frame_formula(base, n, pc))).collect(), base));
    model_run(&case, pkt_addr, Quirks::default(), 10_000).out
}

pub fn check(mem: &Mem10, h: &History) -> (Verdict, bool) {
    let pool = pool();
    let progs: Vec<(PKind, &'static [u8])> = pool.iter().map(|(k, p)| (*k, &*Box::leak(p.clone().into_boxed_slice()))).collect();
    let nops = h.ops.len().min(32);
    unsafe {
        let sh = &mut *mem.shared;
        sh.stage = 0;
        sh.init_status = 0;
        for r in sh.recs.iter_mut() {
            *r = Rec { status: 0, value: 0 };
        }
        let pid = libc::fork();
        assert!(pid >= 0);
        if pid == 0 {
            libc::alarm(180);
            let r = std::panic::catch_unwind(std::panic::AssertUnwindSafe(|| child(mem, h, &progs)));
            libc::_exit(if r.is_ok() { 0 } else { 97 });
        }
        let mut status = 0i32;
        libc::waitpid(pid, &mut status, 0);
        let sh = &*mem.shared;
        let describe = |upto: usize| -> String {
            let ip = h.init.map(|s| pick_prog(&pool, h.kind, s));
            let mut s = format!("VM kind {:?}, new({:?})\n", vm_kind(h.kind, ip.map(|p| effective_offs(pool[p].0, h.init_offs)).unwrap_or(h.init_offs)), ip);
            for (k, op) in h.ops.iter().enumerate().take(upto + 1) {
                let what = match op {
                    Op::SetProgram { p, offs } => format!("set_program(pool #{} {:?}, offsets {:?})", pick_prog(&pool, h.kind, *p), pool[pick_prog(&pool, h.kind, *p)].0, OFFSETS[effective_offs(pool[pick_prog(&pool, h.kind, *p)].0, *offs) as usize % 3]),
                    Op::Exec { engine, pkt } => format!("execute[{}](packet #{})", ENGINES[*engine as usize % 3].name(), packet_index(h, &pool.iter().map(|p| p.0).collect::<Vec<_>>(), *pkt)),
                    other => format!("{other:?}"),
                };
                let r = sh.recs[k];
                s.push_str(&format!("  {k:>2}: {what} -> {}\n", match r.status { 1 => format!("Ok({:#x})", r.value), 2 => "Err".into(), 3 => "PANIC".into(), _ => "(not reached)".into() }));
            }
            s
        };
        if libc::WIFSIGNALED(status) {
            let sig = libc::WTERMSIG(status);
            if sig == libc::SIGALRM {
                return (Verdict::Inconclusive("C10 child hit the watchdog".into()), false);
            }
            let k = (sh.stage as usize).saturating_sub(1);
            return (Verdict::fail(format!("signal-{sig}-in-history"), format!("the process died with signal {sig} during step {k}\n{}", describe(k))), false);
        }
        // abstract replay
        let default_ok = |p: usize| refver::violations(&pool[p].1).is_empty();
        let init_prog = h.init.map(|s| pick_prog(&pool, h.kind, s));
        let init_should = init_prog.map(default_ok).unwrap_or(true);
        match (sh.init_status, init_should) {
            (1, true) | (2, false) => {}
            (s, _) => return (Verdict::fail("new:wrong-verdict", format!("new() status {s} (1 Ok, 2 Err, 3 panic) but the default verifier should {} the program\n{}", if init_should { "accept" } else { "reject" }, describe(0))), false),
        }
        if sh.init_status != 1 {
            return (Verdict::Pass, false);
        }
        let mut st = MState { prog: init_prog, verifier: VSel::Default, helpers: vec![], calc: None, offs: init_prog.map(|p| effective_offs(pool[p].0, h.init_offs)).unwrap_or(h.init_offs % 3), jit: None, cranelift: None };
        let mut interesting = false;
        let mut execs = 0;
        for (k, op) in h.ops.iter().enumerate().take(nops) {
            let rec = sh.recs[k];
            let fail = |sig: &str, why: String| (Verdict::fail(sig, format!("step {k}: {why}\n{}", describe(k))), false);
            if *op == Op::JitCompile && st.prog.map(|p| pool[p].0 == PKind::InvalidCall).unwrap_or(false) {
                // the JIT on a call whose target is outside the program (loaded under accept-all):
                // outside the property (and outside C12, which is about default-accepted programs)
                return (Verdict::Discard("jit-on-out-of-range-local-call"), false);
            }
            if *op == Op::CraneliftCompile && st.prog.map(|p| matches!(pool[p].0, PKind::Invalid | PKind::InvalidCall)).unwrap_or(false) {
                // Cranelift on a program the default verifier rejects (loaded under accept-all):
                // outside the property
                return (Verdict::Discard("cranelift-on-default-invalid-program"), false);
            }
            if rec.status == 3 {
                return fail("panic-in-history", "the call panicked".into());
            }
            if rec.status == 0 {
                return fail("harness:step-not-reached", format!("child stage {}", sh.stage));
            }
            let ok = rec.status == 1;
            match op {
                Op::SetProgram { p, offs } => {
                    let p = pick_prog(&pool, h.kind, *p);
                    let should = accepts(st.verifier, &pool[p].1);
                    if ok != should {
                        return fail("set_program:wrong-verdict", format!("set_program returned {} but the verifier in force ({:?}) {} this program", if ok { "Ok" } else { "Err" }, st.verifier, if should { "accepts" } else { "rejects" }));
                    }
                    if ok {
                        if st.jit.is_some() || st.cranelift.is_some() {
                            interesting = true;
                        }
                        st.prog = Some(p);
                        st.offs = effective_offs(pool[p].0, *offs);
                        if let Some(c) = st.jit.as_mut() {
                            c.fresh = false;
                        }
                        if let Some(c) = st.cranelift.as_mut() {
                            c.fresh = false;
                        }
                    } else if st.prog.is_some() {
                        interesting = true;
                    }
                }
                Op::SetVerifier(v) => {
                    let v = [VSel::Default, VSel::Accept, VSel::Reject, VSel::Even][*v as usize % 4];
                    let should = st.prog.map(|p| accepts(v, &pool[p].1)).unwrap_or(true);
                    if ok != should {
                        return fail("set_verifier:wrong-verdict", format!("set_verifier({v:?}) returned {} but the loaded program is {} by it", if ok { "Ok" } else { "Err" }, if should { "accepted" } else { "rejected" }));
                    }
                    if ok {
                        st.verifier = v;
                    } else {
                        interesting = true;
                    }
                }
                Op::RegisterHelper(id) => {
                    if !ok {
                        return fail("register_helper:error", "register_helper returned Err".into());
                    }
                    let (hid, hpool) = helper_pool(*id);
                    st.helpers.retain(|h| h.0 != hid);
                    st.helpers.push((hid, hpool));
                }
                Op::SetCalc(c) => {
                    if !ok {
                        return fail("set_stack_usage_calculator:error", "returned Err".into());
                    }
                    st.calc = Some(CALCS[*c as usize % 3]);
                }
                Op::JitCompile | Op::CraneliftCompile => {
                    let is_jit = *op == Op::JitCompile;
                    match st.prog {
                        None => {
                            if ok {
                                return fail("compile:ok-without-program", "compilation succeeded with no program loaded".into());
                            }
                        }
                        Some(p) => {
                            let calls_missing = matches!(pool[p].0, PKind::Helper(id) if !st.helpers.iter().any(|h| h.0 == id));
                            let local = matches!(pool[p].0, PKind::Frame | PKind::Nest);
                            let invalid = matches!(pool[p].0, PKind::Invalid | PKind::InvalidCall);
                            if invalid && !is_jit {
                                // Cranelift on a default-invalid program: outside the property
                                return (Verdict::Discard("cranelift-on-default-invalid-program"), false);
                            }
                            let should = !calls_missing && !(local && !is_jit);
                            if ok != should {
                                return fail(
                                    if is_jit { "jit_compile:wrong-verdict" } else { "cranelift_compile:wrong-verdict" },
                                    format!("compilation returned {} (program {:?}, helpers registered {:?})", if ok { "Ok" } else { "Err" }, pool[p].0, st.helpers),
                                );
                            }
                            if ok {
                                let c = Some(Compiled { fresh: true, prog: p, helpers: st.helpers.clone(), calc: st.calc, offs: st.offs });
                                if is_jit {
                                    st.jit = c;
                                } else {
                                    st.cranelift = c;
                                }
                            }
                            // a failed compilation keeps whatever was compiled before - or drops
                            // it; both are acceptable, so forget what we knew
                            else if is_jit {
                                st.jit = st.jit.take().filter(|c| c.prog == p);
                            } else {
                                st.cranelift = st.cranelift.take().filter(|c| c.prog == p);
                            }
                        }
                    }
                }
                Op::Exec { engine, pkt } => {
                    execs += 1;
                    let e = *engine as usize % 3;
                    let pkt = packet_index(h, &pool.iter().map(|p| p.0).collect::<Vec<_>>(), *pkt);
                    let addr = mem.pkt_addr(pkt);
                    let value_matches = |want: &MOut| -> bool {
                        match want {
                            MOut::Ret(v) => ok && rec.value == *v,
                            MOut::Err(_) => !ok,
                            _ => true,
                        }
                    };
                    if e == 0 {
                        match st.prog {
                            None => {
                                if ok {
                                    return fail("execute:ok-without-program", format!("execute_program returned Ok({:#x}) with no program loaded", rec.value));
                                }
                            }
                            Some(p) => {
                                let want = expected_value(&pool, h.kind, p, &st.helpers, st.calc, st.offs, pkt, addr);
                                if !value_matches(&want) {
                                    return fail("execute:wrong-result", format!("the loaded program is pool #{p} ({:?}); expected {want:?}", pool[p].0));
                                }
                            }
                        }
                    } else {
                        let comp = if e == 1 { &st.jit } else { &st.cranelift };
                        let name = ENGINES[e].name();
                        match (comp, st.prog) {
                            (None, _) | (_, None) => {
                                // never compiled (or compiled code dropped): must be an error... unless
                                // a failed compilation left older code of the same program (handled above)
                                if ok && comp.is_none() {
                                    return fail(&format!("{name}:runs-without-compilation"), format!("execution returned Ok({:#x}) although nothing is compiled", rec.value));
                                }
                            }
                            (Some(c), Some(p)) => {
                                if c.prog == p && c.offs == st.offs {
                                    // compiled from the loaded program: either its value, or (if the
                                    // program was re-loaded since) "not compiled"
                                    let want = expected_value(&pool, h.kind, p, &c.helpers, c.calc, st.offs, pkt, addr);
                                    // a helper re-registered with another function since this
                                    // compilation: whether compiled code follows is not something
                                    // the property decides - either function's result is accepted
                                    let rebound = matches!(pool[p].0, PKind::Helper(id) if c.helpers.iter().find(|h| h.0 == id) != st.helpers.iter().find(|h| h.0 == id));
                                    let alt = if rebound { Some(expected_value(&pool, h.kind, p, &st.helpers, c.calc, st.offs, pkt, addr)) } else { None };
                                    if (ok || c.fresh) && !value_matches(&want) && !alt.as_ref().map(|w| value_matches(w)).unwrap_or(false) {
                                        return fail(&format!("{name}:wrong-result"), format!("compiled from pool #{p} ({:?}) and not reloaded since: {}; expected {want:?}", pool[p].0, c.fresh));
                                    }
                                } else if ok {
                                    // stale code: it must not run. The only acceptable Ok is the NEW
                                    // program's value.
                                    let want = expected_value(&pool, h.kind, p, &st.helpers, st.calc, st.offs, pkt, addr);
                                    if !value_matches(&want) {
                                        return fail(
                                            &format!("{name}:stale-compiled-code-runs"),
                                            format!("the loaded program is pool #{p} ({:?}, expected {want:?}) but the code compiled from pool #{} still runs", pool[p].0, c.prog),
                                        );
                                    }
                                }
                            }
                        }
                        // once an execution reports "not compiled", the model forgets the code
                        if !ok {
                            if e == 1 {
                                if st.jit.as_ref().map(|c| Some(c.prog) != st.prog || c.offs != st.offs).unwrap_or(false) {
                                    st.jit = None;
                                }
                            } else if st.cranelift.as_ref().map(|c| Some(c.prog) != st.prog || c.offs != st.offs).unwrap_or(false) {
                                st.cranelift = None;
                            }
                        }
                    }
                }
            }
        }
        (Verdict::Pass, interesting || execs >= 2)
    }
}

fn to_json(h: &History) -> Value {
    json!({
        "kind": h.kind, "init_offs": h.init_offs, "init": h.init,
        "ops": h.ops.iter().map(|o| match o {
            Op::SetProgram { p, offs } => json!(["set_program", p, offs]),
            Op::SetVerifier(v) => json!(["set_verifier", v]),
            Op::RegisterHelper(i) => json!(["register_helper", i]),
            Op::SetCalc(c) => json!(["set_calc", c]),
            Op::JitCompile => json!(["jit_compile"]),
            Op::CraneliftCompile => json!(["cranelift_compile"]),
            Op::Exec { engine, pkt } => json!(["exec", engine, pkt]),
        }).collect::<Vec<_>>()
    })
}

fn from_json(v: &Value) -> Option<History> {
    let ops = v["ops"].as_array()?.iter().filter_map(|o| {
        let a = |i: usize| o[i].as_u64().unwrap_or(0) as u8;
        Some(match o[0].as_str()? {
            "set_program" => Op::SetProgram { p: a(1), offs: a(2) },
            "set_verifier" => Op::SetVerifier(a(1)),
            "register_helper" => Op::RegisterHelper(a(1)),
            "set_calc" => Op::SetCalc(a(1)),
            "jit_compile" => Op::JitCompile,
            "cranelift_compile" => Op::CraneliftCompile,
            "exec" => Op::Exec { engine: a(1), pkt: a(2) },
            _ => return None,
        })
    }).collect();
    Some(History { kind: v["kind"].as_u64()? as u8, init_offs: v["init_offs"].as_u64()? as u8, init: v["init"].as_u64().map(|x| x as u8), ops })
}

fn run(ctx: &Ctx) {
    let mem = RefCell::new(Mem10::new());
    ctx.shrink_iters.set(3000);
    let cases = ctx.share(ctx.tier.pick(96_000, 1_920_000));
    ctx.search("histories", "history", cases, history(), |h, want_case| {
        let (v, interesting) = check(&mem.borrow(), h);
        if !want_case {
            let mut st = ctx.stats();
            if !st.is_frozen() {
                st.eval();
                st.class(&format!("vm:{}", vm_kind(h.kind, 0).name()));
                let pool_kinds: Vec<PKind> = pool().iter().map(|p| p.0).collect();
                for o in &h.ops {
                    if let Op::Exec { pkt, .. } = o {
                        if packet_index(h, &pool_kinds, *pkt) == 3 {
                            st.class("execute:empty-packet");
                        }
                    }
                    st.class(match o {
                        Op::SetProgram { .. } => "op:set_program",
                        Op::SetVerifier(_) => "op:set_verifier",
                        Op::RegisterHelper(_) => "op:register_helper",
                        Op::SetCalc(_) => "op:set_stack_usage_calculator",
                        Op::JitCompile => "op:jit_compile",
                        Op::CraneliftCompile => "op:cranelift_compile",
                        Op::Exec { engine, .. } => ["op:execute", "op:execute_jit", "op:execute_cranelift"][*engine as usize % 3],
                    });
                }
                if interesting && !matches!(v, Verdict::Discard(_)) {
                    st.nontrivial(fnv_str(&format!("{h:?}")));
                    st.class("interesting-history");
                }
                st.sample(3, || to_json(h));
            }
        }
        (v, if want_case { to_json(h) } else { Value::Null })
    });
}

fn replay(_ctx: &Ctx, _kind: &str, case: &Value) -> Verdict {
    match from_json(case) {
        Some(h) => check(&Mem10::new(), &h).0,
        None => Verdict::Discard("bad-replay"),
    }
}

#[allow(dead_code)]
fn _unused() -> String {
    isa::hex(&[])
}
