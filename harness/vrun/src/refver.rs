//! Reference verifier, written from the statement of property C06 (not from src/verifier.rs).

use crate::isa::*;

pub const MAX_INSNS: usize = 1_000_000;

#[derive(Clone, Copy, Debug, PartialEq, Eq, Hash, PartialOrd, Ord)]
pub enum Rule {
    Empty,
    NotMultipleOf8,
    TooLong,
    UnknownOpcode,
    SrcReg,
    DstReg,
    DstR10,
    LddwIncomplete,
    JumpSelf,
    JumpOut,
    JumpIntoLddw,
    CallOut,
    CallIntoLddw,
    CallKind,
    TailCall,
    EndianWidth,
    XaddImm,
    LastInsn,
}

impl Rule {
    pub fn name(&self) -> &'static str {
        match self {
            Rule::Empty => "empty",
            Rule::NotMultipleOf8 => "len-not-multiple-of-8",
            Rule::TooLong => "too-long",
            Rule::UnknownOpcode => "unknown-opcode",
            Rule::SrcReg => "src-reg>10",
            Rule::DstReg => "dst-reg>10",
            Rule::DstR10 => "dst-r10-not-store",
            Rule::LddwIncomplete => "lddw-incomplete",
            Rule::JumpSelf => "jump-to-self",
            Rule::JumpOut => "jump-out",
            Rule::JumpIntoLddw => "jump-into-lddw",
            Rule::CallOut => "call-out",
            Rule::CallIntoLddw => "call-into-lddw",
            Rule::CallKind => "call-kind",
            Rule::TailCall => "tail-call",
            Rule::EndianWidth => "endian-width",
            Rule::XaddImm => "xadd-imm",
            Rule::LastInsn => "last-insn",
        }
    }
}

/// All rule violations of a byte string (empty = well-formed). The list is used to classify
/// near misses; acceptance is `violations(..).is_empty()`.
pub fn violations(bytes: &[u8]) -> Vec<Rule> {
    let mut out = Vec::new();
    if bytes.is_empty() {
        return vec![Rule::Empty];
    }
    if bytes.len() % 8 != 0 {
        return vec![Rule::NotMultipleOf8];
    }
    let n = bytes.len() / 8;
    if n > MAX_INSNS {
        return vec![Rule::TooLong];
    }
    let insns = decode_prog(bytes);
    // which slots are second halves of wide loads
    let mut second = vec![false; n];
    let mut i = 0;
    while i < n {
        let x = insns[i];
        let kind = kind_of(x.opc);
        let mut step = 1;
        match kind {
            None => out.push(Rule::UnknownOpcode),
            Some(k) => {
                if x.src > 10 {
                    out.push(Rule::SrcReg);
                }
                let may_r10 = matches!(k, Kind::St | Kind::Stx | Kind::Xadd);
                if x.dst > 10 {
                    out.push(Rule::DstReg);
                } else if x.dst == 10 && !may_r10 {
                    out.push(Rule::DstR10);
                }
                match k {
                    Kind::Lddw => {
                        if i + 1 < n && insns[i + 1].opc == 0 {
                            second[i + 1] = true;
                            step = 2;
                        } else {
                            out.push(Rule::LddwIncomplete);
                        }
                    }
                    Kind::TailCall => out.push(Rule::TailCall),
                    Kind::Endian => {
                        if !matches!(x.imm, 16 | 32 | 64) {
                            out.push(Rule::EndianWidth);
                        }
                    }
                    Kind::Xadd => {
                        if x.imm != 0 {
                            out.push(Rule::XaddImm);
                        }
                    }
                    Kind::Call => {
                        if x.src > 1 {
                            out.push(Rule::CallKind);
                        }
                    }
                    _ => {}
                }
            }
        }
        i += step;
    }
    // control-flow targets (second pass: needs `second`)
    let mut i = 0;
    while i < n {
        let x = insns[i];
        if second[i] {
            i += 1;
            continue;
        }
        if let Some(k) = kind_of(x.opc) {
            if is_jump_kind(k) {
                let t = i as i64 + 1 + x.off as i64;
                if x.off == -1 {
                    out.push(Rule::JumpSelf);
                } else if t < 0 || t >= n as i64 {
                    out.push(Rule::JumpOut);
                } else if second[t as usize] || insns[t as usize].opc == 0 {
                    out.push(Rule::JumpIntoLddw);
                }
            }
            if k == Kind::Call && x.src == 1 {
                let t = i as i64 + 1 + x.imm as i64;
                if t < 0 || t >= n as i64 {
                    out.push(Rule::CallOut);
                } else if second[t as usize] || insns[t as usize].opc == 0 {
                    out.push(Rule::CallIntoLddw);
                }
            }
        }
        i += 1;
    }
    // last instruction: exit or unconditional jump (and it must be a real instruction slot)
    let last = insns[n - 1];
    if second[n - 1] || !(last.opc == EXIT || last.opc == JA) {
        out.push(Rule::LastInsn);
    }
    out.sort();
    out.dedup();
    out
}

pub fn ref_verify(bytes: &[u8]) -> Result<(), Rule> {
    match violations(bytes).first() {
        None => Ok(()),
        Some(r) => Err(*r),
    }
}
