//! Fork-isolated execution of generated programs on the three engines.
//!
//! Buffers live in guard-page arenas at fixed addresses, so every engine of a case sees the same
//! addresses; results come back through a MAP_SHARED page; a stage marker tells which engine and
//! phase was running if the child dies.

use crate::engine::fnv;
use crate::model::HelperModel;
use serde_json::{json, Value};
use std::any::Any;
use std::collections::HashMap;

pub const MAXBUF: usize = 8192;
pub const NSLOT: usize = 4;
pub const PAGE: usize = 4096;

#[derive(Clone, Copy, Debug, PartialEq, Eq, Hash)]
pub enum VmKind {
    NoData,
    Raw,
    /// user-supplied metadata buffer; the harness writes the packet start / end pointers at these
    /// offsets of it
    Mbuff { data_off: usize, end_off: usize },
    /// EbpfVmFixedMbuff with these configured offsets
    Fixed { data_off: usize, end_off: usize },
}

impl VmKind {
    pub fn name(&self) -> &'static str {
        match self {
            VmKind::NoData => "NoData",
            VmKind::Raw => "Raw",
            VmKind::Mbuff { .. } => "Mbuff",
            VmKind::Fixed { .. } => "FixedMbuff",
        }
    }
    pub fn to_json(&self) -> Value {
        match self {
            VmKind::NoData => json!({"kind": "NoData"}),
            VmKind::Raw => json!({"kind": "Raw"}),
            VmKind::Mbuff { data_off, end_off } => json!({"kind": "Mbuff", "data_off": data_off, "end_off": end_off}),
            VmKind::Fixed { data_off, end_off } => json!({"kind": "FixedMbuff", "data_off": data_off, "end_off": end_off}),
        }
    }
    pub fn from_json(v: &Value) -> VmKind {
        let d = v["data_off"].as_u64().unwrap_or(0) as usize;
        let e = v["end_off"].as_u64().unwrap_or(8) as usize;
        match v["kind"].as_str().unwrap_or("NoData") {
            "Raw" => VmKind::Raw,
            "Mbuff" => VmKind::Mbuff { data_off: d, end_off: e },
            "FixedMbuff" => VmKind::Fixed { data_off: d, end_off: e },
            _ => VmKind::NoData,
        }
    }
}

#[derive(Clone, Copy, Debug, PartialEq, Eq, Hash)]
pub enum Engine {
    Interp,
    Jit,
    Cranelift,
}

impl Engine {
    pub fn name(&self) -> &'static str {
        match self {
            Engine::Interp => "interpreter",
            Engine::Jit => "jit",
            Engine::Cranelift => "cranelift",
        }
    }
}

#[derive(Clone, Debug)]
pub struct ExecCase {
    pub vm: VmKind,
    pub prog: Vec<u8>,
    pub pkt: Vec<u8>,
    /// Mbuff kind only: contents of the user metadata buffer (pointer slots are overwritten)
    pub mbuff: Vec<u8>,
    /// place the packet / metadata buffer with its end against a guard page (else its start)
    pub pkt_at_end: bool,
    pub mbuff_at_end: bool,
    /// helper id -> pool index
    pub helpers: Vec<(u32, u8)>,
    /// stack usage calculator table: (entry pc -> frame size), default for other pcs
    pub calc: Option<(Vec<(usize, u16)>, u16)>,
    /// interpreter instruction budget
    pub budget: u64,
    /// compile twice and compare (C12)
    pub compile_twice: bool,
    /// only compile, do not execute (C12 on programs the model cannot vouch for)
    pub compile_only: bool,
    /// ranges registered with register_allowed_memory: (offset, length) inside a page of real,
    /// pattern-filled memory that the runner owns (used by the crash oracle of C05 only: the
    /// reference model does not know these regions)
    pub allowed: Vec<(u16, u16)>,
}

impl ExecCase {
    pub fn new(vm: VmKind, prog: Vec<u8>) -> ExecCase {
        ExecCase { vm, prog, pkt: vec![], mbuff: vec![], pkt_at_end: true, mbuff_at_end: false, helpers: vec![], calc: None, budget: 1_000_000, compile_twice: false, compile_only: false, allowed: vec![] }
    }
    pub fn to_json(&self) -> Value {
        json!({
            "vm": self.vm.to_json(),
            "prog": crate::isa::hex(&self.prog),
            "pkt": crate::isa::hex(&self.pkt),
            "mbuff": crate::isa::hex(&self.mbuff),
            "pkt_at_end": self.pkt_at_end,
            "mbuff_at_end": self.mbuff_at_end,
            "helpers": self.helpers.iter().map(|(i, p)| json!([i, p])).collect::<Vec<_>>(),
            "calc": match &self.calc { None => Value::Null, Some((t, d)) => json!({"table": t.iter().map(|(pc, s)| json!([pc, s])).collect::<Vec<_>>(), "default": d}) },
            "budget": self.budget,
            "compile_twice": self.compile_twice,
            "compile_only": self.compile_only,
            "allowed": self.allowed.iter().map(|(o, l)| json!([o, l])).collect::<Vec<_>>(),
            "listing": crate::isa::listing(&self.prog, 60),
        })
    }
    pub fn from_json(v: &Value) -> ExecCase {
        let pairs = |x: &Value| -> Vec<(u64, u64)> {
            x.as_array().map(|a| a.iter().map(|p| (p[0].as_u64().unwrap_or(0), p[1].as_u64().unwrap_or(0))).collect()).unwrap_or_default()
        };
        ExecCase {
            vm: VmKind::from_json(&v["vm"]),
            prog: crate::isa::unhex(v["prog"].as_str().unwrap_or("")),
            pkt: crate::isa::unhex(v["pkt"].as_str().unwrap_or("")),
            mbuff: crate::isa::unhex(v["mbuff"].as_str().unwrap_or("")),
            pkt_at_end: v["pkt_at_end"].as_bool().unwrap_or(true),
            mbuff_at_end: v["mbuff_at_end"].as_bool().unwrap_or(false),
            helpers: pairs(&v["helpers"]).into_iter().map(|(a, b)| (a as u32, b as u8)).collect(),
            calc: if v["calc"].is_null() { None } else { Some((pairs(&v["calc"]["table"]).into_iter().map(|(a, b)| (a as usize, b as u16)).collect(), v["calc"]["default"].as_u64().unwrap_or(256) as u16)) },
            budget: v["budget"].as_u64().unwrap_or(1_000_000),
            compile_twice: v["compile_twice"].as_bool().unwrap_or(false),
            compile_only: v["compile_only"].as_bool().unwrap_or(false),
            allowed: pairs(&v["allowed"]).into_iter().map(|(a, b)| (a as u16, b as u16)).collect(),
        }
    }
    pub fn hash(&self) -> u64 {
        fnv(&self.prog) ^ fnv(&self.pkt).rotate_left(17) ^ fnv(&self.mbuff).rotate_left(31) ^ fnv(self.vm.name().as_bytes())
    }
    /// base address modulo 8 of packet / metadata buffer as the engines will see them
    pub fn pkt_base_mod8(&self) -> u8 {
        if self.pkt_at_end { ((8 - self.pkt.len() % 8) % 8) as u8 } else { 0 }
    }
    pub fn mbuff_base_mod8(&self) -> u8 {
        if self.mbuff_at_end { ((8 - self.mbuff.len() % 8) % 8) as u8 } else { 0 }
    }
}

// ---- helper pool -----------------------------------------------------------------------------

pub const POOL_ARITY: [u8; 8] = [5, 5, 3, 2, 1, 0, 5, 4];

pub fn pool_mix(idx: u8, a: &[u64; 5]) -> u64 {
    let mut h: u64 = 0x9e37_79b9_7f4a_7c15 ^ ((idx as u64 + 1) << 56);
    for k in 0..POOL_ARITY[idx as usize] as usize {
        h = (h ^ a[k]).wrapping_mul(0x1000_0000_01b3).rotate_left(23) ^ (k as u64 + 1);
    }
    h
}

#[repr(C)]
#[derive(Clone, Copy, Debug, PartialEq, Eq)]
pub struct HRec {
    pub pool: u32,
    pub align: u32,
    pub args: [u64; 5],
}

static mut SHARED: *mut Shared = std::ptr::null_mut();
static mut CUR_SLOT: usize = 0;

/// rsp as seen at the first instruction of the most recently entered helper stub
#[no_mangle]
static mut VERIF_RSP_SLOT: u64 = 0;

#[inline(never)]
fn helper_body(idx: u8, a1: u64, a2: u64, a3: u64, a4: u64, a5: u64) -> u64 {
    let args = [a1, a2, a3, a4, a5];
    unsafe {
        // the C ABI requires (rsp + 8) % 16 == 0 at function entry
        let align = ((VERIF_RSP_SLOT.wrapping_add(8)) % 16) as u32;
        if !SHARED.is_null() {
            let slot = &mut (*SHARED).slots[CUR_SLOT];
            let n = slot.hlog_len as usize;
            if n < slot.hlog.len() {
                slot.hlog[n] = HRec { pool: idx as u32, align, args };
            }
            slot.hlog_len += 1;
        }
    }
    pool_mix(idx, &args)
}

// Each pool helper is entered through a two-instruction assembly stub that records the stack
// pointer at entry and tail-jumps to the Rust body, so that the alignment the *caller* provided is
// observable (C08).
macro_rules! pool_fn {
    ($stub:ident, $body:ident, $idx:expr) => {
        extern "C" fn $body(a1: u64, a2: u64, a3: u64, a4: u64, a5: u64) -> u64 {
            helper_body($idx, a1, a2, a3, a4, a5)
        }
        std::arch::global_asm!(
            concat!(".global ", stringify!($stub)),
            concat!(stringify!($stub), ":"),
            "mov qword ptr [rip + {slot}], rsp",
            "jmp {body}",
            slot = sym VERIF_RSP_SLOT,
            body = sym $body,
        );
        extern "C" {
            fn $stub(a1: u64, a2: u64, a3: u64, a4: u64, a5: u64) -> u64;
        }
    };
}
pool_fn!(verif_stub_0, verif_body_0, 0);
pool_fn!(verif_stub_1, verif_body_1, 1);
pool_fn!(verif_stub_2, verif_body_2, 2);
pool_fn!(verif_stub_3, verif_body_3, 3);
pool_fn!(verif_stub_4, verif_body_4, 4);
pool_fn!(verif_stub_5, verif_body_5, 5);
pool_fn!(verif_stub_6, verif_body_6, 6);
pool_fn!(verif_stub_7, verif_body_7, 7);

pub fn pool_fn(idx: u8) -> fn(u64, u64, u64, u64, u64) -> u64 {
    let stubs: [unsafe extern "C" fn(u64, u64, u64, u64, u64) -> u64; 8] =
        [verif_stub_0, verif_stub_1, verif_stub_2, verif_stub_3, verif_stub_4, verif_stub_5, verif_stub_6, verif_stub_7];
    // rbpf's helper type is a Rust-ABI fn pointer that its JITs call with the C convention; for
    // five u64 arguments and a u64 result the two conventions coincide on x86-64
    unsafe { std::mem::transmute(stubs[idx as usize % 8]) }
}

fn m0(a: &[u64; 5]) -> u64 { pool_mix(0, a) }
fn m1(a: &[u64; 5]) -> u64 { pool_mix(1, a) }
fn m2(a: &[u64; 5]) -> u64 { pool_mix(2, a) }
fn m3(a: &[u64; 5]) -> u64 { pool_mix(3, a) }
fn m4(a: &[u64; 5]) -> u64 { pool_mix(4, a) }
fn m5(a: &[u64; 5]) -> u64 { pool_mix(5, a) }
fn m6(a: &[u64; 5]) -> u64 { pool_mix(6, a) }
fn m7(a: &[u64; 5]) -> u64 { pool_mix(7, a) }

pub fn pool_model(idx: u8) -> HelperModel {
    let f: [fn(&[u64; 5]) -> u64; 8] = [m0, m1, m2, m3, m4, m5, m6, m7];
    HelperModel { arity: POOL_ARITY[idx as usize % 8], f: f[idx as usize % 8] }
}

pub fn helper_models(helpers: &[(u32, u8)]) -> HashMap<u32, HelperModel> {
    helpers.iter().map(|(id, p)| (*id, pool_model(*p))).collect()
}

// ---- shared result area ----------------------------------------------------------------------

pub const ST_NOT_RUN: u32 = 0;
pub const ST_OK: u32 = 1;
pub const ST_ERR: u32 = 2;
pub const ST_PANIC: u32 = 3;
pub const ST_COMPILE_ERR: u32 = 4;
pub const ST_COMPILE_PANIC: u32 = 5;
pub const ST_VERIFIER_ERR: u32 = 6;
pub const ST_COMPILED_ONLY: u32 = 7;

#[repr(C)]
pub struct Slot {
    pub status: u32,
    pub msg_len: u32,
    pub value: u64,
    pub insns: u64,
    pub code_hash: u64,
    pub code_len: u64,
    /// second compilation (compile_twice): status and code hash
    pub status2: u32,
    pub hlog_len: u32,
    pub code_hash2: u64,
    pub msg: [u8; 400],
    pub hlog: [HRec; 64],
    pub pkt_after: [u8; MAXBUF],
    pub mbuff_after: [u8; MAXBUF],
}

#[repr(C)]
pub struct Shared {
    pub stage: u32,
    pub slots: [Slot; NSLOT],
}

#[derive(Clone, Copy, Debug, PartialEq, Eq)]
pub enum Phase {
    Setup,
    Compile,
    Run,
}

#[derive(Clone, Debug, PartialEq, Eq)]
pub enum Outcome {
    NotRun,
    VerifierErr(String),
    Ok(u64),
    Err(String),
    Panic(String),
    CompileErr(String),
    CompilePanic(String),
    CompiledOnly,
    Signal { sig: i32, phase: Phase },
    Hang { phase: Phase },
}

impl Outcome {
    pub fn short(&self) -> String {
        match self {
            Outcome::Ok(v) => format!("Ok({v:#x})"),
            Outcome::Err(m) => format!("Err({})", m.lines().next().unwrap_or("")),
            other => format!("{other:?}"),
        }
    }
}

#[derive(Clone, Debug)]
pub struct EngResult {
    pub engine: Engine,
    pub outcome: Outcome,
    pub pkt: Vec<u8>,
    pub mbuff: Vec<u8>,
    pub hlog: Vec<HRec>,
    pub hlog_total: u32,
    pub insns: u64,
    pub code_hash: u64,
    pub code_len: u64,
    pub second: Option<(u32, u64)>,
}

pub struct Arena {
    pub base: *mut u8,
    pub data_pages: usize,
}

impl Arena {
    pub fn new(data_pages: usize, shared: bool) -> Arena {
        unsafe {
            let total = (data_pages + 2) * PAGE;
            let flags = libc::MAP_ANONYMOUS | if shared { libc::MAP_SHARED } else { libc::MAP_PRIVATE };
            let p = libc::mmap(std::ptr::null_mut(), total, libc::PROT_NONE, flags, -1, 0);
            assert!(p != libc::MAP_FAILED, "mmap failed");
            let base = p as *mut u8;
            let r = libc::mprotect(base.add(PAGE) as *mut libc::c_void, data_pages * PAGE, libc::PROT_READ | libc::PROT_WRITE);
            assert_eq!(r, 0);
            Arena { base, data_pages }
        }
    }
    pub fn data_start(&self) -> *mut u8 {
        unsafe { self.base.add(PAGE) }
    }
    pub fn data_end(&self) -> *mut u8 {
        unsafe { self.base.add(PAGE + self.data_pages * PAGE) }
    }
    /// Address of a buffer of `len` bytes placed against the leading or trailing guard page.
    pub fn place(&self, len: usize, at_end: bool) -> *mut u8 {
        assert!(len <= self.data_pages * PAGE);
        if at_end {
            unsafe { self.data_end().sub(len) }
        } else {
            self.data_start()
        }
    }
    pub fn fill(&self, byte: u8) {
        unsafe { std::ptr::write_bytes(self.data_start(), byte, self.data_pages * PAGE) }
    }
}

pub struct Runner {
    pkt: Arena,
    mbuff: Arena,
    extra: Arena,
    shared: *mut Shared,
    pub forks: u64,
}

/// A slice over arena memory with an unconstrained lifetime (the arenas live as long as the process).
unsafe fn sl(p: *mut u8, n: usize) -> &'static mut [u8] {
    std::slice::from_raw_parts_mut(p, n)
}

fn calc_fn(_prog: &[u8], pc: usize, data: &mut dyn Any) -> u16 {
    // rbpf hands over `&mut Box<dyn Any>` coerced to `&mut dyn Any`: the Any is the box itself
    let inner: &dyn Any = match data.downcast_ref::<Box<dyn Any>>() {
        Some(b) => b.as_ref(),
        None => data,
    };
    let (table, default) = inner.downcast_ref::<(HashMap<usize, u16>, u16)>().expect("calculator data");
    table.get(&pc).copied().unwrap_or(*default)
}

fn set_msg(slot: &mut Slot, m: &str) {
    let b = m.as_bytes();
    let n = b.len().min(slot.msg.len());
    slot.msg[..n].copy_from_slice(&b[..n]);
    slot.msg_len = n as u32;
}

/// Helpers are registered in an order that is a deterministic function of the case (as listed,
/// reversed, rotated, or shuffled by a hash): the order of registration is part of the input
/// space of the API, and the lists the generators produce are sorted by id.
pub fn registration_order(case: &ExecCase) -> Vec<(u32, u8)> {
    let mut v = case.helpers.clone();
    if v.len() < 2 {
        return v;
    }
    let h = crate::engine::fnv(&case.prog);
    match h % 4 {
        0 => {}
        1 => v.reverse(),
        2 => {
            let k = (h >> 8) as usize % v.len();
            v.rotate_left(k);
        }
        _ => v.sort_by_key(|(id, _)| crate::engine::splitmix(*id as u64 ^ h)),
    }
    v
}

macro_rules! configure_vm {
    ($vm:expr, $case:expr, $extra:expr) => {{
        for (o, l) in &$case.allowed {
            let s = $extra as u64 + (*o as u64 % PAGE as u64);
            let e = (s + *l as u64).min($extra as u64 + PAGE as u64);
            $vm.register_allowed_memory(s..e);
        }
        for (id, p) in &registration_order($case) {
            $vm.register_helper(*id, pool_fn(*p)).unwrap();
        }
        if let Some((table, default)) = &$case.calc {
            let map: HashMap<usize, u16> = table.iter().cloned().collect();
            $vm.set_stack_usage_calculator(calc_fn, Box::new((map, *default))).unwrap();
        }
    }};
}

macro_rules! run_engine {
    ($vm:expr, $engine:expr, $case:expr, $slot:expr, $stage:expr, $idx:expr, $interp:expr, $jit:expr, $crane:expr) => {{
        match $engine {
            Engine::Interp => {
                *$stage = ($idx * 10 + 3) as u32;
                rbpf::verif_hooks::set_insn_budget($case.budget);
                let r = crate::props::catch(std::panic::AssertUnwindSafe(|| $interp));
                $slot.insns = rbpf::verif_hooks::insns_executed();
                match r {
                    Ok(Ok(v)) => {
                        $slot.status = ST_OK;
                        $slot.value = v;
                    }
                    Ok(Err(e)) => {
                        $slot.status = ST_ERR;
                        set_msg($slot, &e.to_string());
                    }
                    Err(m) => {
                        $slot.status = ST_PANIC;
                        set_msg($slot, &m);
                    }
                }
            }
            Engine::Jit => {
                *$stage = ($idx * 10 + 2) as u32;
                let c = crate::props::catch(std::panic::AssertUnwindSafe(|| $vm.jit_compile()));
                match c {
                    Ok(Ok(())) => {
                        if let Some(code) = $vm.verif_jit_code() {
                            $slot.code_hash = fnv(code);
                            $slot.code_len = code.len() as u64;
                        }
                        if $case.compile_twice {
                            let c2 = crate::props::catch(std::panic::AssertUnwindSafe(|| $vm.jit_compile()));
                            $slot.status2 = match c2 {
                                Ok(Ok(())) => ST_OK,
                                Ok(Err(_)) => ST_COMPILE_ERR,
                                Err(_) => ST_COMPILE_PANIC,
                            };
                            if let Some(code) = $vm.verif_jit_code() {
                                $slot.code_hash2 = fnv(code);
                            }
                        }
                        if $case.compile_only {
                            $slot.status = ST_COMPILED_ONLY;
                        } else {
                            *$stage = ($idx * 10 + 3) as u32;
                            let r = crate::props::catch(std::panic::AssertUnwindSafe(|| unsafe { $jit }));
                            match r {
                                Ok(Ok(v)) => {
                                    $slot.status = ST_OK;
                                    $slot.value = v;
                                }
                                Ok(Err(e)) => {
                                    $slot.status = ST_ERR;
                                    set_msg($slot, &e.to_string());
                                }
                                Err(m) => {
                                    $slot.status = ST_PANIC;
                                    set_msg($slot, &m);
                                }
                            }
                        }
                    }
                    Ok(Err(e)) => {
                        $slot.status = ST_COMPILE_ERR;
                        set_msg($slot, &e.to_string());
                        if $case.compile_twice {
                            let c2 = crate::props::catch(std::panic::AssertUnwindSafe(|| $vm.jit_compile()));
                            $slot.status2 = match c2 {
                                Ok(Ok(())) => ST_OK,
                                Ok(Err(_)) => ST_COMPILE_ERR,
                                Err(_) => ST_COMPILE_PANIC,
                            };
                        }
                    }
                    Err(m) => {
                        $slot.status = ST_COMPILE_PANIC;
                        set_msg($slot, &m);
                    }
                }
            }
            Engine::Cranelift => {
                *$stage = ($idx * 10 + 2) as u32;
                let c = crate::props::catch(std::panic::AssertUnwindSafe(|| $vm.cranelift_compile()));
                match c {
                    Ok(Ok(())) => {
                        if $case.compile_twice {
                            let c2 = crate::props::catch(std::panic::AssertUnwindSafe(|| $vm.cranelift_compile()));
                            $slot.status2 = match c2 {
                                Ok(Ok(())) => ST_OK,
                                Ok(Err(_)) => ST_COMPILE_ERR,
                                Err(_) => ST_COMPILE_PANIC,
                            };
                        }
                        if $case.compile_only {
                            $slot.status = ST_COMPILED_ONLY;
                        } else {
                            *$stage = ($idx * 10 + 3) as u32;
                            let r = crate::props::catch(std::panic::AssertUnwindSafe(|| $crane));
                            match r {
                                Ok(Ok(v)) => {
                                    $slot.status = ST_OK;
                                    $slot.value = v;
                                }
                                Ok(Err(e)) => {
                                    $slot.status = ST_ERR;
                                    set_msg($slot, &e.to_string());
                                }
                                Err(m) => {
                                    $slot.status = ST_PANIC;
                                    set_msg($slot, &m);
                                }
                            }
                        }
                    }
                    Ok(Err(e)) => {
                        $slot.status = ST_COMPILE_ERR;
                        set_msg($slot, &e.to_string());
                        if $case.compile_twice {
                            let c2 = crate::props::catch(std::panic::AssertUnwindSafe(|| $vm.cranelift_compile()));
                            $slot.status2 = match c2 {
                                Ok(Ok(())) => ST_OK,
                                Ok(Err(_)) => ST_COMPILE_ERR,
                                Err(_) => ST_COMPILE_PANIC,
                            };
                        }
                    }
                    Err(m) => {
                        $slot.status = ST_COMPILE_PANIC;
                        set_msg($slot, &m);
                    }
                }
            }
        }
    }};
}

impl Runner {
    pub fn new() -> Runner {
        unsafe {
            let size = std::mem::size_of::<Shared>();
            let p = libc::mmap(std::ptr::null_mut(), size, libc::PROT_READ | libc::PROT_WRITE, libc::MAP_ANONYMOUS | libc::MAP_SHARED, -1, 0);
            assert!(p != libc::MAP_FAILED);
            Runner { pkt: Arena::new(MAXBUF / PAGE, false), mbuff: Arena::new(MAXBUF / PAGE, false), extra: Arena::new(1, false), shared: p as *mut Shared, forks: 0 }
        }
    }

    pub fn pkt_addr(&self, case: &ExecCase) -> u64 {
        self.pkt.place(case.pkt.len(), case.pkt_at_end) as u64
    }
    pub fn mbuff_addr(&self, case: &ExecCase) -> u64 {
        self.mbuff.place(case.mbuff.len(), case.mbuff_at_end) as u64
    }

    /// (re)initialise the buffers for one engine run
    unsafe fn reset_buffers(&self, case: &ExecCase) -> (*mut u8, *mut u8) {
        self.pkt.fill(0xa5);
        self.mbuff.fill(0x5a);
        self.extra.fill(0x3c);
        let p = self.pkt.place(case.pkt.len(), case.pkt_at_end);
        std::ptr::copy_nonoverlapping(case.pkt.as_ptr(), p, case.pkt.len());
        let m = self.mbuff.place(case.mbuff.len(), case.mbuff_at_end);
        std::ptr::copy_nonoverlapping(case.mbuff.as_ptr(), m, case.mbuff.len());
        if let VmKind::Mbuff { data_off, end_off } = case.vm {
            if data_off + 8 <= case.mbuff.len() {
                std::ptr::copy_nonoverlapping((p as u64).to_le_bytes().as_ptr(), m.add(data_off), 8);
            }
            if end_off + 8 <= case.mbuff.len() {
                std::ptr::copy_nonoverlapping((p as u64 + case.pkt.len() as u64).to_le_bytes().as_ptr(), m.add(end_off), 8);
            }
        }
        (p, m)
    }

    /// Body of the child process: run engines[from..] in order.
    unsafe fn child(&self, case: &ExecCase, engines: &[Engine], from: usize) {
        SHARED = self.shared;
        let sh = &mut *self.shared;
        let prog: &'static [u8] = std::mem::transmute::<&[u8], &'static [u8]>(&case.prog[..]);
        for idx in from..engines.len() {
            let engine = engines[idx];
            CUR_SLOT = idx;
            let stage = &mut sh.stage as *mut u32;
            *stage = (idx * 10 + 1) as u32;
            let (p, m) = self.reset_buffers(case);
            let extra_base = self.extra.data_start();
            let (pl, ml) = (case.pkt.len(), case.mbuff.len());
            let slot = &mut sh.slots[idx];
            // a third of the cases each (a function of the program): program given to new();
            // VM created empty, configured, program loaded last; program given to new(), VM
            // configured, the same program loaded again with set_program() - the configuration
            // must survive a reload
            let order = (crate::engine::fnv(&case.prog) >> 2) % 3;
            let late = order == 1;
            let reload = order != 0;
            match case.vm {
                VmKind::NoData => match if late { rbpf::EbpfVmNoData::new(None) } else { rbpf::EbpfVmNoData::new(Some(prog)) } {
                    Err(e) => {
                        slot.status = ST_VERIFIER_ERR;
                        set_msg(slot, &e.to_string());
                    }
                    Ok(mut vm) => {
                        configure_vm!(vm, case, extra_base);
                        match if reload { vm.set_program(prog) } else { Ok(()) } {
                            Err(e) => {
                                slot.status = ST_VERIFIER_ERR;
                                set_msg(slot, &e.to_string());
                            }
                            Ok(()) => {
                                run_engine!(vm, engine, case, slot, stage, idx, vm.execute_program(), vm.execute_program_jit(), vm.execute_program_cranelift());
                            }
                        }
                    }
                },
                VmKind::Raw => match if late { rbpf::EbpfVmRaw::new(None) } else { rbpf::EbpfVmRaw::new(Some(prog)) } {
                    Err(e) => {
                        slot.status = ST_VERIFIER_ERR;
                        set_msg(slot, &e.to_string());
                    }
                    Ok(mut vm) => {
                        configure_vm!(vm, case, extra_base);
                        match if reload { vm.set_program(prog) } else { Ok(()) } {
                            Err(e) => {
                                slot.status = ST_VERIFIER_ERR;
                                set_msg(slot, &e.to_string());
                            }
                            Ok(()) => {
                                run_engine!(vm, engine, case, slot, stage, idx, vm.execute_program(sl(p, pl)), vm.execute_program_jit(sl(p, pl)), vm.execute_program_cranelift(sl(p, pl)));
                            }
                        }
                    }
                },
                VmKind::Mbuff { .. } => match if late { rbpf::EbpfVmMbuff::new(None) } else { rbpf::EbpfVmMbuff::new(Some(prog)) } {
                    Err(e) => {
                        slot.status = ST_VERIFIER_ERR;
                        set_msg(slot, &e.to_string());
                    }
                    Ok(mut vm) => {
                        configure_vm!(vm, case, extra_base);
                        match if reload { vm.set_program(prog) } else { Ok(()) } {
                            Err(e) => {
                                slot.status = ST_VERIFIER_ERR;
                                set_msg(slot, &e.to_string());
                            }
                            Ok(()) => {
                                run_engine!(vm, engine, case, slot, stage, idx, vm.execute_program(sl(p, pl), sl(m, ml)), vm.execute_program_jit(sl(p, pl), sl(m, ml)), vm.execute_program_cranelift(sl(p, pl), sl(m, ml)));
                            }
                        }
                    }
                },
                VmKind::Fixed { data_off, end_off } => match if late { rbpf::EbpfVmFixedMbuff::new(None, data_off, end_off) } else { rbpf::EbpfVmFixedMbuff::new(Some(prog), data_off, end_off) } {
                    Err(e) => {
                        slot.status = ST_VERIFIER_ERR;
                        set_msg(slot, &e.to_string());
                    }
                    Ok(mut vm) => {
                        configure_vm!(vm, case, extra_base);
                        match if reload { vm.set_program(prog, data_off, end_off) } else { Ok(()) } {
                            Err(e) => {
                                slot.status = ST_VERIFIER_ERR;
                                set_msg(slot, &e.to_string());
                            }
                            Ok(()) => {
                                run_engine!(vm, engine, case, slot, stage, idx, vm.execute_program(sl(p, pl)), vm.execute_program_jit(sl(p, pl)), vm.execute_program_cranelift(sl(p, pl)));
                            }
                        }
                    }
                },
            }
            *stage = (idx * 10 + 4) as u32;
            std::ptr::copy_nonoverlapping(p, slot.pkt_after.as_mut_ptr(), case.pkt.len());
            std::ptr::copy_nonoverlapping(m, slot.mbuff_after.as_mut_ptr(), case.mbuff.len());
        }
    }

    /// Run `engines` (at most NSLOT) on the case, each from freshly initialised buffers.
    pub fn run(&mut self, case: &ExecCase, engines: &[Engine]) -> Vec<EngResult> {
        assert!(engines.len() <= NSLOT && case.pkt.len() <= MAXBUF && case.mbuff.len() <= MAXBUF);
        unsafe {
            let sh = &mut *self.shared;
            sh.stage = 0;
            for s in sh.slots.iter_mut() {
                s.status = ST_NOT_RUN;
                s.status2 = ST_NOT_RUN;
                s.msg_len = 0;
                s.value = 0;
                s.insns = 0;
                s.hlog_len = 0;
                s.code_hash = 0;
                s.code_hash2 = 0;
                s.code_len = 0;
            }
        }
        let mut died: Vec<Option<Outcome>> = vec![None; engines.len()];
        let mut from = 0;
        while from < engines.len() {
            self.forks += 1;
            let pid = unsafe { libc::fork() };
            assert!(pid >= 0, "fork failed");
            if pid == 0 {
                // Never let the child return into the caller (proptest catches panics and would
                // carry on searching - and forking - inside the child).
                unsafe {
                    libc::alarm(180);
                    let r = std::panic::catch_unwind(std::panic::AssertUnwindSafe(|| self.child(case, engines, from)));
                    libc::_exit(if r.is_ok() { 0 } else { 97 });
                }
            }
            let mut status: i32 = 0;
            unsafe {
                libc::waitpid(pid, &mut status, 0);
            }
            if libc::WIFEXITED(status) && libc::WEXITSTATUS(status) == 0 {
                break;
            }
            let stage = unsafe { (*self.shared).stage } as usize;
            let idx = (stage / 10).min(engines.len() - 1).max(from);
            let phase = match stage % 10 {
                2 => Phase::Compile,
                3 => Phase::Run,
                _ => Phase::Setup,
            };
            let out = if libc::WIFSIGNALED(status) {
                let sig = libc::WTERMSIG(status);
                if sig == libc::SIGALRM {
                    Outcome::Hang { phase }
                } else {
                    Outcome::Signal { sig, phase }
                }
            } else {
                Outcome::Signal { sig: -libc::WEXITSTATUS(status), phase }
            };
            died[idx] = Some(out);
            from = idx + 1;
        }
        let sh = unsafe { &*self.shared };
        engines
            .iter()
            .enumerate()
            .map(|(i, e)| {
                let s = &sh.slots[i];
                let msg = String::from_utf8_lossy(&s.msg[..s.msg_len as usize]).to_string();
                let outcome = match &died[i] {
                    Some(o) => o.clone(),
                    None => match s.status {
                        ST_OK => Outcome::Ok(s.value),
                        ST_ERR => Outcome::Err(msg),
                        ST_PANIC => Outcome::Panic(msg),
                        ST_COMPILE_ERR => Outcome::CompileErr(msg),
                        ST_COMPILE_PANIC => Outcome::CompilePanic(msg),
                        ST_VERIFIER_ERR => Outcome::VerifierErr(msg),
                        ST_COMPILED_ONLY => Outcome::CompiledOnly,
                        _ => Outcome::NotRun,
                    },
                };
                EngResult {
                    engine: *e,
                    outcome,
                    pkt: s.pkt_after[..case.pkt.len()].to_vec(),
                    mbuff: s.mbuff_after[..case.mbuff.len()].to_vec(),
                    hlog: s.hlog[..(s.hlog_len as usize).min(64)].to_vec(),
                    hlog_total: s.hlog_len,
                    insns: s.insns,
                    code_hash: s.code_hash,
                    code_len: s.code_len,
                    second: if s.status2 != ST_NOT_RUN { Some((s.status2, s.code_hash2)) } else { None },
                }
            })
            .collect()
    }
}
