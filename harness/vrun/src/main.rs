mod asmref;
mod engine;
mod execcheck;
mod fuzz;
mod gen;
mod model;
mod runner;
mod isa;
mod props;
mod refver;
mod soup;
mod vmx;

use engine::*;
use serde_json::{json, Value};
use std::collections::BTreeSet;
use std::process::{Command, Stdio};
use std::time::Instant;

fn usage() -> ! {
    eprintln!("usage: vrun check <Cxx> [--tier quick|thorough] [--workers N]\n       vrun replay <Cxx> <file>\n       vrun list");
    std::process::exit(64);
}

fn arg_value(args: &[String], name: &str) -> Option<String> {
    args.iter().position(|a| a == name).and_then(|i| args.get(i + 1).cloned())
}

fn seed_from_env() -> u64 {
    match std::env::var("VERIF_SEED").ok().and_then(|s| s.trim().parse::<i128>().ok()) {
        Some(v) => v as u64,
        None => 1,
    }
}

fn tier_from(args: &[String]) -> Tier {
    let t = arg_value(args, "--tier").or_else(|| std::env::var("VERIF_TIER").ok()).unwrap_or_else(|| "quick".into());
    match t.as_str() {
        "thorough" => Tier::Thorough,
        _ => Tier::Quick,
    }
}

/// Run one replay file; returns (verdict, expect string).
fn run_replay_file(def: &props::PropDef, ctx: &Ctx, path: &std::path::Path) -> Result<(Verdict, String), String> {
    let v = read_json(path).ok_or_else(|| format!("cannot parse {}", path.display()))?;
    let kind = v["kind"].as_str().unwrap_or("").to_string();
    let expect = v["expect"].as_str().unwrap_or("pass").to_string();
    let verdict = if kind == "fuzz" { fuzz::replay(&v["case"]) } else { (def.replay)(ctx, &kind, &v["case"]) };
    Ok((verdict, expect))
}

fn main() {
    let args: Vec<String> = std::env::args().collect();
    if args.len() < 2 {
        usage();
    }
    match args[1].as_str() {
        "list" => {
            for d in props::all() {
                println!("{}", d.info.id);
            }
        }
        "check" => {
            let id = args.get(2).cloned().unwrap_or_else(|| usage());
            std::process::exit(check(&id, &args));
        }
        "worker" => {
            let id = args.get(2).cloned().unwrap_or_else(|| usage());
            worker(&id, &args);
        }
        "replays" => {
            let id = args.get(2).cloned().unwrap_or_else(|| usage());
            replays(&id, &args);
        }
        "mk" => mk(&args),
        "replay" => {
            let id = args.get(2).cloned().unwrap_or_else(|| usage());
            let file = args.get(3).cloned().unwrap_or_else(|| usage());
            let def = props::find(&id).unwrap_or_else(|| usage());
            let mut ctx = Ctx::new(def.info.id, tier_from(&args), seed_from_env(), 0, 1);
            ctx.strict = true;
            match run_replay_file(&def, &ctx, std::path::Path::new(&file)) {
                Ok((Verdict::Fail { signature, detail }, _)) => {
                    println!("replay fails: signature={signature}\n{detail}");
                    println!("VIOLATION property={} replay={}", def.info.id, file);
                    std::process::exit(1);
                }
                Ok((v, _)) => {
                    println!("replay verdict: {v:?}");
                    std::process::exit(if matches!(v, Verdict::Inconclusive(_)) { 2 } else { 0 });
                }
                Err(e) => {
                    eprintln!("{e}");
                    std::process::exit(64);
                }
            }
        }
        _ => usage(),
    }
}

fn worker(id: &str, args: &[String]) {
    let def = props::find(id).unwrap_or_else(|| usage());
    let w: usize = arg_value(args, "--worker").and_then(|s| s.parse().ok()).unwrap_or(0);
    let n: usize = arg_value(args, "--nworkers").and_then(|s| s.parse().ok()).unwrap_or(1);
    let out = arg_value(args, "--out").unwrap_or_else(|| usage());
    let ctx = Ctx::new(def.info.id, tier_from(args), seed_from_env(), w, n);
    (def.run)(&ctx);
    let st = ctx.stats.borrow();
    std::fs::write(out, serde_json::to_string(&st.to_json()).unwrap()).expect("write worker output");
}

/// Run the committed replay files of a property (everything in replays/<id>/ except the
/// `found-*` files written by earlier searches).
fn replays(id: &str, args: &[String]) {
    let def = props::find(id).unwrap_or_else(|| usage());
    let out = arg_value(args, "--out").unwrap_or_else(|| usage());
    let mut ctx = Ctx::new(def.info.id, tier_from(args), seed_from_env(), 0, 1);
    ctx.strict = true;
    let dir = verif_root().join("replays").join(def.info.id);
    let mut files: Vec<_> = std::fs::read_dir(&dir)
        .map(|rd| rd.filter_map(|e| e.ok()).map(|e| e.path()).collect())
        .unwrap_or_default();
    files.retain(|p| {
        let n = p.file_name().and_then(|s| s.to_str()).unwrap_or("");
        n.ends_with(".json") && !n.starts_with("found-")
    });
    files.sort();
    let mut violations = Vec::new();
    let mut known_lines = Vec::new();
    let mut inconclusive = Vec::new();
    let mut progress = Vec::new();
    for f in &files {
        // progress marker so that the parent can tell which file killed us, if one does
        progress.push(f.to_string_lossy().to_string());
        let _ = std::fs::write(format!("{out}.progress"), f.to_string_lossy().as_bytes());
        match run_replay_file(&def, &ctx, f) {
            Err(e) => inconclusive.push(e),
            Ok((Verdict::Fail { signature, detail }, expect)) => {
                let known_key = expect.strip_prefix("known:").map(String::from);
                match known_key {
                    Some(k) if k == signature && ctx.known.is_open(def.info.id, &k) => {
                        let desc = ctx.known.open[&(def.info.id.to_string(), k.clone())].clone();
                        known_lines.push(format!("key={k} {desc}"));
                    }
                    _ => violations.push(json!({"signature": signature, "detail": detail, "replay": f.to_string_lossy()})),
                }
            }
            Ok((Verdict::Inconclusive(w), _)) => inconclusive.push(format!("{}: {w}", f.display())),
            Ok(_) => {}
        }
    }
    let v = json!({"files": files.len(), "violations": violations, "known_lines": known_lines, "inconclusive": inconclusive});
    std::fs::write(out, serde_json::to_string(&v).unwrap()).expect("write replays output");
}

fn check(id: &str, args: &[String]) -> i32 {
    let def = match props::find(id) {
        Some(d) => d,
        None => {
            eprintln!("unknown property {id}");
            return 64;
        }
    };
    let start = Instant::now();
    let tier = tier_from(args);
    let seed = seed_from_env();
    let ncpu = std::thread::available_parallelism().map(|n| n.get()).unwrap_or(4);
    let nworkers: usize = arg_value(args, "--workers").and_then(|s| s.parse().ok()).unwrap_or(ncpu.min(16)).max(1);
    let nworkers = if def.single_worker { 1 } else { nworkers };
    let exe = std::env::current_exe().expect("current_exe");
    let scratch = scratch_dir();
    let tag = format!("{}-{}-{}", def.info.id, std::process::id(), seed);

    let mut stats = Stats::default();
    let mut known_lines: BTreeSet<String> = BTreeSet::new();
    let mut hard_inconclusive: Vec<String> = Vec::new();

    // 1. replay tier
    let rout = scratch.join(format!("{tag}.replays.json"));
    let _ = std::fs::remove_file(&rout);
    let status = Command::new(&exe)
        .args(["replays", def.info.id, "--tier", tier.name(), "--out"])
        .arg(&rout)
        .stdout(Stdio::null())
        .status();
    let mut replays_run = 0usize;
    match (status, read_json(&rout)) {
        (Ok(s), Some(v)) if s.success() => {
            replays_run = v["files"].as_u64().unwrap_or(0) as usize;
            if let Some(a) = v["violations"].as_array() {
                stats.violations.extend(a.iter().cloned());
            }
            if let Some(a) = v["known_lines"].as_array() {
                for l in a {
                    known_lines.insert(l.as_str().unwrap_or("").to_string());
                }
            }
            if let Some(a) = v["inconclusive"].as_array() {
                for l in a {
                    hard_inconclusive.push(l.as_str().unwrap_or("").to_string());
                }
            }
        }
        (st, _) => {
            let which = std::fs::read_to_string(format!("{}.progress", rout.display())).unwrap_or_default();
            hard_inconclusive.push(format!("replay runner died ({st:?}) while running {which}"));
        }
    }
    let _ = std::fs::remove_file(&rout);
    let _ = std::fs::remove_file(format!("{}.progress", rout.display()));

    // 2. search tier, in worker processes
    let mut children = Vec::new();
    for w in 0..nworkers {
        let out = scratch.join(format!("{tag}.w{w}.json"));
        let _ = std::fs::remove_file(&out);
        let child = Command::new(&exe)
            .args(["worker", def.info.id, "--tier", tier.name()])
            .args(["--worker", &w.to_string(), "--nworkers", &nworkers.to_string(), "--out"])
            .arg(&out)
            .stdout(Stdio::null())
            .stderr(std::fs::File::create(scratch.join(format!("{tag}.w{w}.stderr"))).map(Stdio::from).unwrap_or_else(|_| Stdio::null()))
            .spawn()
            .expect("spawn worker");
        children.push((w, child, out));
    }
    for (w, mut child, out) in children {
        let st = child.wait();
        match (st, read_json(&out)) {
            (Ok(s), Some(v)) if s.success() => stats.merge_json(&v),
            (st, _) => {
                let err = std::fs::read_to_string(scratch.join(format!("{tag}.w{w}.stderr"))).unwrap_or_default();
                let tail: String = err.lines().rev().take(5).collect::<Vec<_>>().join(" | ");
                hard_inconclusive.push(format!("worker {w} died: {st:?} stderr: {tail}"))
            }
        }
        let _ = std::fs::remove_file(&out);
        let _ = std::fs::remove_file(scratch.join(format!("{tag}.w{w}.stderr")));
    }

    // 2b. coverage-guided campaign (thorough tier of the byte/text level properties)
    if tier == Tier::Thorough && stats.violations.is_empty() {
        fuzz::run_campaign(def.info.id, seed, &mut stats);
    }

    // 3. known findings hit by the search
    for (k, _) in stats.excluded_known.clone() {
        if let Some(desc) = Known::load().open.get(&(def.info.id.to_string(), k.clone())) {
            known_lines.insert(format!("key={k} {desc}"));
        }
    }

    let wall = start.elapsed().as_secs_f64();
    stats.inconclusive.extend(hard_inconclusive.iter().cloned());
    write_evidence(&def.info, tier, seed, &stats, wall, nworkers, replays_run, &known_lines);

    for l in &known_lines {
        println!("KNOWN-FINDING: property={} {}", def.info.id, l);
    }
    // distinct violations by signature (one line per replay file)
    let mut seen = BTreeSet::new();
    for v in &stats.violations {
        let sig = v["signature"].as_str().unwrap_or("");
        let rp = v["replay"].as_str().unwrap_or("");
        // one line per distinct signature (workers usually find the same thing several times)
        if seen.insert(sig.to_string()) {
            println!("VIOLATION property={} replay={}", def.info.id, rp);
            println!("  signature: {sig}");
            for l in v["detail"].as_str().unwrap_or("").lines().take(12) {
                println!("  {l}");
            }
        }
    }
    let discarded: u64 = stats.discarded.values().sum();
    println!(
        "{} tier={} seed={} evaluations={} distinct_nontrivial={} discarded={} excluded_known={} replays={} violations={} wall={:.1}s",
        def.info.id,
        tier.name(),
        seed,
        stats.evaluations,
        stats.nontrivial.len() as u64 + stats.distinct_by_construction,
        discarded,
        stats.excluded_known.values().sum::<u64>(),
        replays_run,
        stats.violations.len(),
        wall
    );
    if !stats.violations.is_empty() {
        return 1;
    }
    if !hard_inconclusive.is_empty() || !stats.inconclusive.is_empty() {
        for l in stats.inconclusive.iter().take(5) {
            println!("INCONCLUSIVE property={} reason={}", def.info.id, l);
        }
        return 2;
    }
    0
}

#[allow(dead_code)]
fn _unused(_: Value) {}


/// Build a replay file from assembly text:
///   vrun mk <Cxx> <kind> <name> [--vm nodata|raw|mbuff:D:E|fixed:D:E] [--pkt HEX] [--mbuff HEX]
///           [--helpers id:pool,...] [--calc pc:size,...[/default]] [--expect pass|known:KEY] [--sig S] --asm TEXT
/// In TEXT, a line ".fill N" expands to N harmless instructions.
fn mk(args: &[String]) {
    let prop = args.get(2).cloned().unwrap_or_else(|| usage());
    let kind = args.get(3).cloned().unwrap_or_else(|| usage());
    let name = args.get(4).cloned().unwrap_or_else(|| usage());
    let asm = arg_value(args, "--asm").unwrap_or_else(|| usage());
    let mut text = String::new();
    for line in asm.lines() {
        let l = line.trim();
        if let Some(n) = l.strip_prefix(".fill ") {
            for _ in 0..n.trim().parse::<usize>().unwrap_or(0) {
                text.push_str("mov64 r9, r9\n");
            }
        } else {
            text.push_str(l);
            text.push('\n');
        }
    }
    let prog = rbpf::assembler::assemble(&text).expect("assembly error");
    let vm = match arg_value(args, "--vm").unwrap_or_else(|| "nodata".into()).as_str() {
        "nodata" => runner::VmKind::NoData,
        "raw" => runner::VmKind::Raw,
        other => {
            let p: Vec<&str> = other.split(':').collect();
            let d = p.get(1).and_then(|x| x.parse().ok()).unwrap_or(0);
            let e = p.get(2).and_then(|x| x.parse().ok()).unwrap_or(8);
            if p[0] == "mbuff" {
                runner::VmKind::Mbuff { data_off: d, end_off: e }
            } else {
                runner::VmKind::Fixed { data_off: d, end_off: e }
            }
        }
    };
    let mut case = runner::ExecCase::new(vm, prog);
    case.pkt = isa::unhex(&arg_value(args, "--pkt").unwrap_or_default());
    case.mbuff = isa::unhex(&arg_value(args, "--mbuff").unwrap_or_default());
    if let Some(h) = arg_value(args, "--helpers") {
        for part in h.split(',').filter(|x| !x.is_empty()) {
            let (a, b) = part.split_once(':').unwrap_or((part, "0"));
            case.helpers.push((a.parse::<u32>().unwrap_or(0), b.parse::<u8>().unwrap_or(0)));
        }
    }
    if let Some(c) = arg_value(args, "--calc") {
        let (tbl, def) = c.split_once('/').unwrap_or((c.as_str(), "256"));
        let t = tbl.split(',').filter(|x| !x.is_empty()).map(|p| { let (a, b) = p.split_once(':').unwrap(); (a.parse().unwrap(), b.parse().unwrap()) }).collect();
        case.calc = Some((t, def.parse().unwrap_or(256)));
    }
    let mut cj = case.to_json();
    if case.prog.len() > 8 * 400 {
        cj["listing"] = json!(isa::listing(&case.prog, 8));
    }
    let body = json!({
        "property": prop,
        "kind": kind,
        "signature": arg_value(args, "--sig").unwrap_or_default(),
        "detail": arg_value(args, "--detail").unwrap_or_default(),
        "seed": 0,
        "case": cj,
        "expect": arg_value(args, "--expect").unwrap_or_else(|| "pass".into()),
    });
    let dir = verif_root().join("replays").join(&prop);
    let _ = std::fs::create_dir_all(&dir);
    let path = dir.join(format!("{name}.json"));
    std::fs::write(&path, serde_json::to_string_pretty(&body).unwrap()).expect("write");
    println!("{}", path.display());
}
