//! G-soup: near-valid byte strings. A mostly well-formed program is built from raw slots by a
//! deterministic fix-up pass, then 0-2 targeted mutations break (or do not break) one verifier
//! rule each. Used by C05, C06, C12 and C15/C16.

use crate::isa::*;
use proptest::prelude::*;

#[derive(Clone, Debug)]
pub struct RawSlot {
    pub opc_sel: u16,
    pub dst: u8,
    pub src: u8,
    pub off: i16,
    pub imm: i32,
    pub tgt: u16,
}

#[derive(Clone, Debug)]
pub enum Mutation {
    /// set the opcode byte of slot `at` to `val`
    Opcode { at: u16, val: u8 },
    /// set the register byte of slot `at`
    RegByte { at: u16, val: u8 },
    /// set only the dst nibble
    Dst { at: u16, val: u8 },
    /// set only the src nibble
    Src { at: u16, val: u8 },
    /// point the offset of slot `at` at a target class
    Off { at: u16, class: u8, raw: i16 },
    /// set the immediate of slot `at` to a class value
    Imm { at: u16, class: u8, raw: i32 },
    /// replace the last instruction
    Last { opc: u8, off: i16, imm: i32, regs: u8 },
    /// drop `k` trailing bytes
    Truncate { k: u8 },
    /// overwrite the slot after slot `at` with a non-zero opcode (breaks an lddw if `at` is one)
    BreakSecondHalf { at: u16 },
    /// turn slot `at` into a local call whose target is chosen by class
    LocalCall { at: u16, class: u8, raw: i32 },
    /// change the immediate of the `nth` instruction of a kind whose immediate is checked
    /// (byte swap, atomic add) or whose src nibble selects a call kind
    Checked { nth: u8, class: u8, raw: i32 },
    /// turn slot `at` into a jump of kind `opc_sel` whose target is chosen by class
    Jump { at: u16, opc_sel: u8, class: u8, raw: i16 },
    /// overwrite the slot after slot `at` with a copy of slot `at` (two byte-identical neighbours:
    /// whatever is position dependent in the first - a jump or call target - is off by one in the second)
    CopyToNext { at: u16 },
    /// three slots: `ja +1`, a jump of kind `opc_sel` whose target is chosen by class, and a
    /// byte-identical copy of that jump - the copy is reached (by the `ja`) although the original
    /// is not, and whatever is position dependent in the jump is off by one in the copy
    JumpPairEntered { at: u16, opc_sel: u8, class: u8, raw: i16 },
}

#[derive(Clone, Debug)]
pub struct Soup {
    pub slots: Vec<RawSlot>,
    pub muts: Vec<Mutation>,
    /// (before, after): the program is embedded between that many filler instructions (the part
    /// after it ends with an exit) before the mutations are applied, so that they may hit any
    /// position of a long program
    pub embed: Option<(u32, u32)>,
}

fn idx(sel: u16, len: usize) -> usize {
    // monotone map so that shrinking the selector shrinks the index
    ((sel as usize) * len) >> 16
}

pub fn lower(s: &Soup) -> Vec<u8> {
    let sup = supported_opcodes();
    let n = s.slots.len();
    let mut insns: Vec<Insn> = Vec::with_capacity(n);
    let mut second = vec![false; n];
    // pass 1: opcodes and plain fields
    let mut i = 0;
    while i < n {
        let r = &s.slots[i];
        let mut opc = sup[idx(r.opc_sel, sup.len())];
        if r.opc_sel % 16 == 7 {
            opc = LDDW; // wide loads are over-represented: several rules are about them
        }
        if opc == LDDW && i + 2 >= n {
            opc = 0xb7; // no room for the second half (and the last slot must be exit/ja)
        }
        let k = kind_of(opc).unwrap();
        let may_r10 = matches!(k, Kind::St | Kind::Stx | Kind::Xadd);
        let dst = if may_r10 { r.dst % 11 } else { r.dst % 10 };
        let src = r.src % 11;
        let mut x = Insn::new(opc, dst, src, r.off, r.imm);
        match k {
            Kind::Endian => x.imm = [16, 32, 64][(r.imm as u32 % 3) as usize],
            Kind::Xadd => x.imm = 0,
            Kind::Call => x.src = r.src % 2,
            _ => {}
        }
        insns.push(x);
        if opc == LDDW {
            let r2 = &s.slots[i + 1];
            insns.push(Insn::new(0, 0, 0, 0, r2.imm));
            second[i + 1] = true;
            i += 2;
        } else {
            i += 1;
        }
    }
    // last instruction: exit or ja
    if n > 0 {
        let r = &s.slots[n - 1];
        if !second[n - 1] {
            let opc = if r.opc_sel & 1 == 0 || n == 1 { EXIT } else { JA };
            insns[n - 1] = Insn::new(opc, r.dst % 10, r.src % 11, r.off, r.imm);
        }
    }
    // pass 2: control-flow targets
    let valid_target = |t: usize, from: usize| -> Option<usize> {
        // first real instruction at or after t that is not `from` itself (jump to self is refused)
        (t..n).chain(0..t).find(|&c| !second[c] && c != from)
    };
    for i in 0..n {
        if second[i] {
            continue;
        }
        let k = kind_of(insns[i].opc).unwrap();
        let r = &s.slots[i];
        if is_jump_kind(k) {
            match valid_target(idx(r.tgt, n), i) {
                Some(t) => insns[i].off = (t as i64 - i as i64 - 1) as i16,
                None => insns[i] = Insn::new(EXIT, 0, 0, r.off, r.imm),
            }
        } else if k == Kind::Call && insns[i].src == 1 {
            // a call may target itself (it then ends in the depth error)
            let t = (idx(r.tgt, n)..n).chain(0..n).find(|&c| !second[c]).unwrap_or(0);
            insns[i].imm = (t as i64 - i as i64 - 1) as i32;
        }
    }
    let mut bytes = encode_prog(&insns);
    if let Some((before, after)) = s.embed {
        let filler = Insn::new(alu_opc(true, ALU_MOV, false), 1, 0, 0, 7).encode();
        let mut all = Vec::with_capacity(bytes.len() + 8 * (before + after) as usize);
        for _ in 0..before {
            all.extend_from_slice(&filler);
        }
        all.extend_from_slice(&bytes);
        for k in 0..after {
            all.extend_from_slice(&if k + 1 == after { Insn::new(EXIT, 0, 0, 0, 0).encode() } else { filler });
        }
        bytes = all;
    }
    for m in &s.muts {
        apply(m, &mut bytes);
    }
    bytes
}

fn target_by_class(class: u8, n: usize, at: usize, raw: i64, bytes: &[u8]) -> i64 {
    // returns the target index (may be out of range on purpose)
    match class % 10 {
        0 => 0,
        1 => at as i64,          // self
        2 => at as i64 + 1,      // next
        3 => n as i64 - 1,       // last instruction
        4 => n as i64,           // one past the end
        5 => -1,                 // one before the start
        6 => {
            // the second half of some lddw, if there is one
            let insns = decode_prog(bytes);
            let mut t = at as i64 + 1;
            for (j, x) in insns.iter().enumerate() {
                if x.opc == LDDW && j + 1 < insns.len() {
                    t = j as i64 + 1;
                    if raw & 1 == 0 {
                        break;
                    }
                }
            }
            t
        }
        7 => raw.rem_euclid(n.max(1) as i64), // random in range
        8 => n as i64 + (raw & 0xff),         // beyond the end
        _ => -(raw & 0xff) - 1,               // before the start
    }
}

pub fn apply_all(muts: &[Mutation], bytes: &mut Vec<u8>) {
    for m in muts {
        apply(m, bytes);
    }
}

fn apply(m: &Mutation, bytes: &mut Vec<u8>) {
    let n = bytes.len() / 8;
    if n == 0 {
        return;
    }
    let at_of = |at: u16| idx(at, n);
    match m {
        Mutation::Opcode { at, val } => bytes[at_of(*at) * 8] = *val,
        Mutation::RegByte { at, val } => bytes[at_of(*at) * 8 + 1] = *val,
        Mutation::Dst { at, val } => {
            let p = at_of(*at) * 8 + 1;
            bytes[p] = (bytes[p] & 0xf0) | (val & 0x0f);
        }
        Mutation::Src { at, val } => {
            let p = at_of(*at) * 8 + 1;
            bytes[p] = (bytes[p] & 0x0f) | (val << 4);
        }
        Mutation::Off { at, class, raw } => {
            let a = at_of(*at);
            let t = target_by_class(*class, n, a, *raw as i64, bytes);
            let off = (t - a as i64 - 1).clamp(i16::MIN as i64, i16::MAX as i64) as i16;
            bytes[a * 8 + 2..a * 8 + 4].copy_from_slice(&off.to_le_bytes());
        }
        Mutation::Imm { at, class, raw } => {
            let a = at_of(*at);
            let v: i32 = match class % 8 {
                0 => 0,
                1 => 16,
                2 => 32,
                3 => 64,
                4 => 8,
                5 => -1,
                6 => 1,
                _ => *raw,
            };
            bytes[a * 8 + 4..a * 8 + 8].copy_from_slice(&v.to_le_bytes());
        }
        Mutation::Last { opc, off, imm, regs } => {
            let e = ref_encode(*opc, regs & 15, regs >> 4, *off, *imm);
            bytes[(n - 1) * 8..n * 8].copy_from_slice(&e);
        }
        Mutation::Truncate { k } => {
            let k = (*k as usize % 8).max(1).min(bytes.len());
            bytes.truncate(bytes.len() - k);
        }
        Mutation::BreakSecondHalf { at } => {
            let a = at_of(*at);
            if a + 1 < n {
                bytes[(a + 1) * 8] = 0xb7;
            }
        }
        Mutation::LocalCall { at, class, raw } => {
            let a = at_of(*at);
            let t = target_by_class(*class, n, a, *raw as i64, bytes);
            let imm = (t - a as i64 - 1) as i32;
            let e = ref_encode(CALL, 0, 1, 0, imm);
            bytes[a * 8..a * 8 + 8].copy_from_slice(&e);
        }
        Mutation::Checked { nth, class, raw } => {
            let insns = decode_prog(bytes);
            let cands: Vec<usize> = insns
                .iter()
                .enumerate()
                .filter(|(_, x)| matches!(kind_of(x.opc), Some(Kind::Endian | Kind::Xadd | Kind::Call)))
                .map(|(i, _)| i)
                .collect();
            if !cands.is_empty() {
                let a = cands[*nth as usize % cands.len()];
                if kind_of(insns[a].opc) == Some(Kind::Call) {
                    // call kind: src nibble 0..15
                    bytes[a * 8 + 1] = (bytes[a * 8 + 1] & 0x0f) | ((*class & 0x0f) << 4);
                } else {
                    let v: i32 = match class % 8 {
                        0 => 0,
                        1 => 16,
                        2 => 32,
                        3 => 64,
                        4 => 8,
                        5 => -1,
                        6 => 1,
                        _ => *raw,
                    };
                    bytes[a * 8 + 4..a * 8 + 8].copy_from_slice(&v.to_le_bytes());
                }
            }
        }
        Mutation::CopyToNext { at } => {
            let a = at_of(*at);
            if a + 1 < n {
                bytes.copy_within(a * 8..a * 8 + 8, (a + 1) * 8);
            }
        }
        Mutation::JumpPairEntered { at, opc_sel, class, raw } => {
            let a = at_of(*at);
            if a + 2 < n {
                let jumps: Vec<u8> = supported_opcodes().into_iter().filter(|o| is_jump_kind(kind_of(*o).unwrap()) && *o != JA).collect();
                let opc = jumps[*opc_sel as usize % jumps.len()];
                let t = target_by_class(*class, n, a + 1, *raw as i64, bytes);
                let off = (t - (a as i64 + 1) - 1).clamp(i16::MIN as i64, i16::MAX as i64) as i16;
                let old = ref_decode(&bytes[(a + 1) * 8..(a + 1) * 8 + 8]);
                let e = ref_encode(opc, old.dst % 10, old.src % 11, off, old.imm);
                bytes[a * 8..a * 8 + 8].copy_from_slice(&ref_encode(JA, 0, 0, 1, 0));
                bytes[(a + 1) * 8..(a + 1) * 8 + 8].copy_from_slice(&e);
                bytes[(a + 2) * 8..(a + 2) * 8 + 8].copy_from_slice(&e);
            }
        }
        Mutation::Jump { at, opc_sel, class, raw } => {
            let a = at_of(*at);
            let jumps: Vec<u8> = supported_opcodes().into_iter().filter(|o| is_jump_kind(kind_of(*o).unwrap())).collect();
            let opc = jumps[*opc_sel as usize % jumps.len()];
            let t = target_by_class(*class, n, a, *raw as i64, bytes);
            let off = (t - a as i64 - 1).clamp(i16::MIN as i64, i16::MAX as i64) as i16;
            let old = ref_decode(&bytes[a * 8..a * 8 + 8]);
            let e = ref_encode(opc, old.dst % 10, old.src % 11, off, old.imm);
            bytes[a * 8..a * 8 + 8].copy_from_slice(&e);
        }
    }
}

pub fn raw_slot() -> impl Strategy<Value = RawSlot> {
    (any::<u16>(), 0u8..11, 0u8..11, crate::props::c17::off_strategy(), crate::props::c17::imm_strategy(), any::<u16>())
        .prop_map(|(opc_sel, dst, src, off, imm, tgt)| RawSlot { opc_sel, dst, src, off, imm, tgt })
}

pub fn mutation() -> impl Strategy<Value = Mutation> {
    prop_oneof![
        2 => (any::<u16>(), prop_oneof![3 => any::<u8>(), 1 => Just(TAIL_CALL), 1 => Just(LDDW), 1 => Just(0u8), 1 => Just(0xd7u8), 1 => Just(0x8cu8)]).prop_map(|(at, val)| Mutation::Opcode { at, val }),
        2 => (any::<u8>(), any::<u8>(), any::<i32>()).prop_map(|(nth, class, raw)| Mutation::Checked { nth, class, raw }),
        1 => (any::<u16>(), any::<u8>()).prop_map(|(at, val)| Mutation::RegByte { at, val }),
        2 => (any::<u16>(), 0u8..16).prop_map(|(at, val)| Mutation::Dst { at, val }),
        2 => (any::<u16>(), 0u8..16).prop_map(|(at, val)| Mutation::Src { at, val }),
        2 => (any::<u16>(), any::<u8>(), any::<i16>()).prop_map(|(at, class, raw)| Mutation::Off { at, class, raw }),
        2 => (any::<u16>(), any::<u8>(), any::<i32>()).prop_map(|(at, class, raw)| Mutation::Imm { at, class, raw }),
        2 => (any::<u8>(), any::<i16>(), any::<i32>(), any::<u8>()).prop_map(|(opc, off, imm, regs)| Mutation::Last { opc, off, imm, regs }),
        1 => any::<u8>().prop_map(|k| Mutation::Truncate { k }),
        1 => any::<u16>().prop_map(|at| Mutation::BreakSecondHalf { at }),
        3 => (any::<u16>(), any::<u8>(), any::<i32>()).prop_map(|(at, class, raw)| Mutation::LocalCall { at, class, raw }),
        3 => (any::<u16>(), any::<u8>(), any::<u8>(), any::<i16>()).prop_map(|(at, opc_sel, class, raw)| Mutation::Jump { at, opc_sel, class, raw }),
        2 => any::<u16>().prop_map(|at| Mutation::CopyToNext { at }),
        1 => (any::<u16>(), any::<u8>(), any::<u8>(), any::<i16>()).prop_map(|(at, opc_sel, class, raw)| Mutation::JumpPairEntered { at, opc_sel, class, raw }),
    ]
}

/// Near-valid programs of 0..max_len slots with up to two mutations.
pub fn soup(max_len: usize) -> impl Strategy<Value = Soup> {
    let nm = prop_oneof![3 => Just(0usize), 4 => Just(1usize), 2 => Just(2usize)];
    (prop::collection::vec(raw_slot(), 0..max_len), nm)
        .prop_flat_map(|(slots, nm)| (Just(slots), prop::collection::vec(mutation(), nm..=nm)))
        .prop_map(|(slots, muts)| Soup { slots, muts, embed: None })
}

/// `soup`, and in one case out of forty the program is embedded in a long one: 0-70,000 filler
/// instructions before and after it (sizes around 2^15 and 2^16 over-represented).
pub fn soup_long(max_len: usize) -> impl Strategy<Value = Soup> {
    (soup(max_len), prop_oneof![39 => Just(None), 1 => embed_sizes().prop_map(Some)]).prop_map(|(mut s, e)| {
        s.embed = e;
        s
    })
}

pub fn embed_sizes() -> impl Strategy<Value = (u32, u32)> {
    let size = || prop_oneof![2 => 0u32..64, 3 => 32_760u32..32_780, 2 => 65_530u32..65_545, 3 => 0u32..70_000];
    (size(), size())
}

/// every program embedded
pub fn soup_embedded(max_len: usize) -> impl Strategy<Value = Soup> {
    (soup(max_len), embed_sizes()).prop_map(|(mut s, e)| {
        s.embed = Some(e);
        s
    })
}
