//! Reference side for the assembler / disassembler properties (C13-C16): a table-driven
//! reference assembler over an abstract syntax, a text renderer with spelling variations, and a
//! small parser for the disassembler's output.

use crate::isa::*;
use proptest::prelude::*;
use std::collections::HashMap;

#[derive(Clone, Debug, PartialEq, Eq, Hash)]
pub enum Opnd {
    Reg(i64),
    Int(i64),
    /// hexadecimal literal denoting a full 64-bit pattern (only used for lddw)
    Hex64(u64),
    Mem(i64, i64),
}

#[derive(Clone, Debug)]
pub struct Spell {
    /// per-number spelling selector bits: hex / plus sign / upper-case / leading zeros
    pub num: u8,
    /// separator after each comma
    pub comma_ws: u8,
    /// whitespace between mnemonic and first operand
    pub mn_ws: u8,
    /// separator after the instruction
    pub end_ws: u8,
}

#[derive(Clone, Debug)]
pub struct Line {
    pub mnemonic: String,
    pub ops: Vec<Opnd>,
    pub spell: Spell,
}

pub fn mnemonic_map() -> HashMap<String, (Shape, u8)> {
    mnemonics().into_iter().map(|(n, s, o)| (n, (s, o))).collect()
}

fn enc(opc: u8, dst: i64, src: i64, off: i64, imm: i64) -> Result<Insn, ()> {
    if !(0..16).contains(&dst) || !(0..16).contains(&src) {
        return Err(());
    }
    if !(-32768..=32767).contains(&off) {
        return Err(());
    }
    if !(-(1i64 << 31)..(1i64 << 31)).contains(&imm) {
        return Err(());
    }
    Ok(Insn::new(opc, dst as u8, src as u8, off as i16, imm as i32))
}

/// What one line denotes: the encoded instruction(s), or Err for anything the documented syntax
/// does not allow (unknown mnemonic, wrong operand shape, out-of-range operand).
pub fn denote(map: &HashMap<String, (Shape, u8)>, line: &Line) -> Result<Vec<Insn>, ()> {
    use Opnd::*;
    let (shape, opc) = *map.get(&line.mnemonic).ok_or(())?;
    let o = &line.ops;
    let one = |i: Insn| Ok(vec![i]);
    match (shape, o.as_slice()) {
        (Shape::AluBinary, [Reg(d), Reg(s)]) => one(enc(opc | 0x08, *d, *s, 0, 0)?),
        (Shape::AluBinary, [Reg(d), Int(i)]) => one(enc(opc, *d, 0, 0, *i)?),
        (Shape::AluUnary, [Reg(d)]) => one(enc(opc, *d, 0, 0, 0)?),
        (Shape::LoadAbs, [Int(i)]) => one(enc(opc, 0, 0, 0, *i)?),
        (Shape::LoadInd, [Reg(s), Int(i)]) => one(enc(opc, 0, *s, 0, *i)?),
        (Shape::LoadReg, [Reg(d), Mem(s, off)]) => one(enc(opc, *d, *s, *off, 0)?),
        (Shape::StoreReg, [Mem(d, off), Reg(s)]) => one(enc(opc, *d, *s, *off, 0)?),
        (Shape::StoreImm, [Mem(d, off), Int(i)]) => one(enc(opc, *d, 0, *off, *i)?),
        (Shape::NoOperand, []) => one(enc(opc, 0, 0, 0, 0)?),
        (Shape::JumpUncond, [Int(off)]) => one(enc(opc, 0, 0, *off, 0)?),
        (Shape::JumpCond, [Reg(d), Reg(s), Int(off)]) => one(enc(opc | 0x08, *d, *s, *off, 0)?),
        (Shape::JumpCond, [Reg(d), Int(i), Int(off)]) => one(enc(opc, *d, 0, *off, *i)?),
        (Shape::Call, [Int(i)]) => one(enc(opc, 0, 0, 0, *i)?),
        (Shape::Callx, [Int(i)]) => one(enc(opc, 0, 1, 0, *i)?),
        (Shape::Endian(w), [Reg(d)]) => one(enc(opc, *d, 0, 0, w as i64)?),
        (Shape::LoadImm, [Reg(d), v @ (Int(_) | Hex64(_))]) => {
            let bits: u64 = match v {
                Int(i) => *i as u64,
                Hex64(h) => *h,
                _ => unreachable!(),
            };
            let lo = enc(opc, *d, 0, 0, bits as u32 as i32 as i64)?;
            let hi = Insn::new(0, 0, 0, 0, (bits >> 32) as u32 as i32);
            Ok(vec![lo, hi])
        }
        _ => Err(()),
    }
}

pub fn ref_assemble(map: &HashMap<String, (Shape, u8)>, lines: &[Line]) -> Result<Vec<u8>, ()> {
    let mut out = Vec::new();
    for l in lines {
        for i in denote(map, l)? {
            out.extend_from_slice(&i.encode());
        }
    }
    Ok(out)
}

fn spell_num(v: i64, bits: u8, force_sign: bool) -> String {
    let hex = bits & 1 != 0;
    let plus = bits & 2 != 0 || force_sign;
    let upper = bits & 4 != 0;
    let zeros = bits & 8 != 0;
    let mag = v.unsigned_abs();
    let sign = if v < 0 {
        "-"
    } else if plus {
        "+"
    } else {
        ""
    };
    let z = if zeros { "00" } else { "" };
    if hex {
        if upper {
            format!("{sign}0x{z}{mag:X}")
        } else {
            format!("{sign}0x{z}{mag:x}")
        }
    } else {
        format!("{sign}{z}{mag}")
    }
}

// the parser skips any white space - line breaks included - after a mnemonic and after a comma
const WS_COMMA: [&str; 9] = [" ", "", "  ", "\t", " ", "", "\n", "\r\n  ", " \n\t"];
const WS_MN: [&str; 8] = [" ", "  ", "\t", " ", " ", "\n", "\r\n", " \n  "];
const WS_END: [&str; 6] = ["\n", "\n    ", " ", "\r\n", "\n\n", "\t\n"];

pub fn render(lines: &[Line]) -> String {
    let mut s = String::new();
    for (k, l) in lines.iter().enumerate() {
        if k == 0 && l.spell.end_ws & 0x80 != 0 {
            s.push_str("  \n ");
        }
        s.push_str(&l.mnemonic);
        for (j, o) in l.ops.iter().enumerate() {
            if j == 0 {
                s.push_str(WS_MN[l.spell.mn_ws as usize % WS_MN.len()]);
            } else {
                s.push(',');
                s.push_str(WS_COMMA[(l.spell.comma_ws as usize + j) % WS_COMMA.len()]);
            }
            let bits = l.spell.num.rotate_left(j as u32 * 2);
            match o {
                Opnd::Reg(r) => s.push_str(&format!("r{}", reg_digits(*r))),
                Opnd::Int(v) => s.push_str(&spell_num(*v, bits, false)),
                Opnd::Hex64(h) => s.push_str(&format!("0x{h:x}")),
                Opnd::Mem(r, off) => {
                    if *off == 0 && bits & 16 != 0 {
                        s.push_str(&format!("[r{}]", reg_digits(*r)));
                    } else {
                        s.push_str(&format!("[r{}{}]", reg_digits(*r), spell_num(*off, bits, true)));
                    }
                }
            }
        }
        if k + 1 < lines.len() || l.spell.end_ws & 0x40 != 0 {
            s.push_str(WS_END[l.spell.end_ws as usize % WS_END.len()]);
        }
    }
    s
}

// ---- generators ----------------------------------------------------------------------------

fn reg_strategy() -> impl Strategy<Value = i64> {
    prop_oneof![80 => 0i64..16, 1 => prop::sample::select(vec![16i64, 17, 99, 255, 256]), 1 => prop::sample::select(vec![-1i64, -2, -16, -241, i64::MIN, i64::MIN + 3, i64::MAX, 1 << 32, (1 << 32) + 3])]
}

/// A negative register value stands for the register number 2^64 + r (a number of 20 digits that
/// fits in 64 bits but not in 63): no register at all.
fn reg_digits(r: i64) -> String {
    if r < 0 {
        (r as u64).to_string()
    } else {
        r.to_string()
    }
}

fn off_strategy() -> impl Strategy<Value = i64> {
    prop_oneof![
        40 => prop::sample::select(vec![0i64, 1, -1, 5, 127, 128, -128, 255, 32767, -32768, 32766, -32767]),
        40 => -32768i64..=32767,
        0 => Just(0i64),
        1 => prop::sample::select(vec![32768i64, -32769, 65535, 65536, 100000, -100000]),
    ]
}

fn imm_strategy() -> impl Strategy<Value = i64> {
    let lo = -(1i64 << 31);
    let hi = (1i64 << 31) - 1;
    prop_oneof![
        40 => prop::sample::select(vec![0i64, 1, -1, 2, 16, 32, 64, 255, 256, 65535, 65536, hi, lo, hi - 1, lo + 1]),
        40 => lo..=hi,
        1 => prop::sample::select(vec![hi + 1, lo - 1, 0xffff_ffff, 1 << 32, -(1i64 << 32), i64::MAX, i64::MIN + 1]),
    ]
}

fn imm64_strategy() -> impl Strategy<Value = Opnd> {
    prop_oneof![
        3 => any::<i64>().prop_map(Opnd::Int),
        3 => any::<u64>().prop_map(Opnd::Hex64),
        2 => prop::sample::select(vec![0i64, 1, -1, i64::MAX, i64::MIN, i64::MIN + 1, 1 << 32, (1 << 32) - 1, -(1i64 << 31), 1 << 31]).prop_map(Opnd::Int),
        1 => prop::sample::select(vec![0u64, u64::MAX, 1 << 63, (1 << 63) - 1, 0xffff_ffff_0000_0000, 0x0000_0000_ffff_ffff]).prop_map(Opnd::Hex64),
    ]
}

fn any_operand() -> impl Strategy<Value = Opnd> {
    prop_oneof![
        reg_strategy().prop_map(Opnd::Reg),
        imm_strategy().prop_map(Opnd::Int),
        (reg_strategy(), off_strategy()).prop_map(|(r, o)| Opnd::Mem(r, o)),
    ]
}

fn spell() -> impl Strategy<Value = Spell> {
    (any::<u8>(), any::<u8>(), any::<u8>(), any::<u8>()).prop_map(|(num, comma_ws, mn_ws, end_ws)| Spell { num, comma_ws, mn_ws, end_ws })
}

/// Operands of the right shape for `shape` (values may still be out of range).
fn shaped_ops(shape: Shape, reg_form: bool) -> BoxedStrategy<Vec<Opnd>> {
    let r = || reg_strategy().prop_map(Opnd::Reg);
    let i = || imm_strategy().prop_map(Opnd::Int);
    let o = || off_strategy().prop_map(Opnd::Int);
    let m = || (reg_strategy(), off_strategy()).prop_map(|(r, o)| Opnd::Mem(r, o));
    match shape {
        Shape::AluBinary => {
            if reg_form {
                (r(), r()).prop_map(|(a, b)| vec![a, b]).boxed()
            } else {
                (r(), i()).prop_map(|(a, b)| vec![a, b]).boxed()
            }
        }
        Shape::AluUnary | Shape::Endian(_) => r().prop_map(|a| vec![a]).boxed(),
        Shape::LoadImm => (r(), imm64_strategy()).prop_map(|(a, b)| vec![a, b]).boxed(),
        Shape::LoadAbs | Shape::Call | Shape::Callx => i().prop_map(|a| vec![a]).boxed(),
        Shape::LoadInd => (r(), i()).prop_map(|(a, b)| vec![a, b]).boxed(),
        Shape::LoadReg => (r(), m()).prop_map(|(a, b)| vec![a, b]).boxed(),
        Shape::StoreImm => (m(), i()).prop_map(|(a, b)| vec![a, b]).boxed(),
        Shape::StoreReg => (m(), r()).prop_map(|(a, b)| vec![a, b]).boxed(),
        Shape::JumpUncond => o().prop_map(|a| vec![a]).boxed(),
        Shape::JumpCond => {
            if reg_form {
                (r(), r(), o()).prop_map(|(a, b, c)| vec![a, b, c]).boxed()
            } else {
                (r(), i(), o()).prop_map(|(a, b, c)| vec![a, b, c]).boxed()
            }
        }
        Shape::NoOperand => Just(vec![]).boxed(),
    }
}

const BOGUS_MNEMONICS: [&str; 14] =
    ["addx", "ldxq", "jeq64", "be8", "le128", "exit32", "neg16", "mov16", "stxx", "ldabs", "callq", "j", "lddw32", "nop"];

/// One line of assembly: usually a documented mnemonic with operands of the right shape and
/// in-range values, sometimes the wrong shape, a bogus mnemonic or out-of-range values.
pub fn line() -> impl Strategy<Value = Line> {
    let table = mnemonics();
    let n = table.len();
    (0..n, any::<bool>(), 0u8..70, spell())
        .prop_flat_map(move |(k, reg_form, mode, spell)| {
            let (name, shape, _) = table[k].clone();
            let ops: BoxedStrategy<Vec<Opnd>> = match mode {
                0 => prop::collection::vec(any_operand(), 0..5).boxed(), // any shape, incl. too many
                _ => shaped_ops(shape, reg_form),
            };
            let name: BoxedStrategy<String> = match mode {
                1 => prop::sample::select(BOGUS_MNEMONICS.to_vec()).prop_map(String::from).boxed(),
                _ => Just(name).boxed(),
            };
            (name, ops, Just(spell))
        })
        .prop_map(|(mnemonic, ops, spell)| Line { mnemonic, ops, spell })
}

/// 1..=max lines; about one line in six repeats an earlier line of the same text (half of them
/// the line just before it, with the same or a different spelling) - an assembler that caches or
/// short-cuts on repeated input must still emit every instruction in full.
pub fn program(max: usize) -> impl Strategy<Value = Vec<Line>> {
    prop::collection::vec((line(), 0u8..=255, any::<u16>()), 1..=max).prop_map(|v| {
        let mut out: Vec<Line> = Vec::with_capacity(v.len());
        for (k, (l, sel, idx)) in v.into_iter().enumerate() {
            if k > 0 && sel < 44 {
                let j = if sel < 22 { k - 1 } else { (idx as usize * k) >> 16 };
                let mut c = out[j].clone();
                if sel % 2 == 0 {
                    c.spell = l.spell;
                }
                out.push(c);
            } else {
                out.push(l);
            }
        }
        out
    })
}

// ---- parser for the disassembler's text ------------------------------------------------------

#[derive(Clone, Debug, PartialEq, Eq)]
pub enum DOp {
    Reg(u8),
    /// (value as written incl. sign, was written with explicit sign)
    Num(i128),
    Mem(u8, i128),
}

fn parse_num(s: &str) -> Option<i128> {
    let (neg, rest) = if let Some(r) = s.strip_prefix('-') {
        (true, r)
    } else if let Some(r) = s.strip_prefix('+') {
        (false, r)
    } else {
        (false, s)
    };
    let mag = if let Some(h) = rest.strip_prefix("0x") {
        if h.is_empty() || !h.chars().all(|c| c.is_ascii_hexdigit()) {
            return None;
        }
        i128::from_str_radix(h, 16).ok()?
    } else {
        if rest.is_empty() || !rest.chars().all(|c| c.is_ascii_digit()) {
            return None;
        }
        rest.parse::<i128>().ok()?
    };
    Some(if neg { -mag } else { mag })
}

fn parse_reg(s: &str) -> Option<u8> {
    let d = s.strip_prefix('r')?;
    if d.is_empty() || !d.chars().all(|c| c.is_ascii_digit()) {
        return None;
    }
    d.parse::<u8>().ok()
}

/// Parse "mnemonic op, op, op" in the assembler's syntax.
pub fn parse_desc(desc: &str) -> Option<(String, Vec<DOp>)> {
    let desc = desc.trim();
    let (mn, rest) = match desc.split_once(' ') {
        Some((m, r)) => (m, r.trim()),
        None => (desc, ""),
    };
    if mn.is_empty() || !mn.chars().all(|c| c.is_ascii_alphanumeric() || c == '_') {
        return None;
    }
    let mut ops = Vec::new();
    if !rest.is_empty() {
        for part in rest.split(',') {
            let p = part.trim();
            if let Some(inner) = p.strip_prefix('[').and_then(|x| x.strip_suffix(']')) {
                let pos = inner.find(|c| c == '+' || c == '-');
                match pos {
                    None => ops.push(DOp::Mem(parse_reg(inner)?, 0)),
                    Some(k) => ops.push(DOp::Mem(parse_reg(&inner[..k])?, parse_num(&inner[k..])?)),
                }
            } else if p.starts_with('r') {
                ops.push(DOp::Reg(parse_reg(p)?));
            } else {
                ops.push(DOp::Num(parse_num(p)?));
            }
        }
    }
    Some((mn.to_string(), ops))
}
