//! Driver shared by all properties: seeding, proptest runner glue, statistics, known findings,
//! replay files, worker processes and the evidence writer.

use proptest::strategy::Strategy;
use proptest::test_runner::{Config, RngAlgorithm, TestCaseError, TestError, TestRng, TestRunner};
use serde_json::{json, Map, Value};
use std::cell::RefCell;
use std::collections::{BTreeMap, BTreeSet, HashSet};
use std::fmt::Debug;
use std::path::{Path, PathBuf};

#[derive(Clone, Copy, Debug, PartialEq, Eq)]
pub enum Tier {
    Quick,
    Thorough,
}

impl Tier {
    pub fn name(&self) -> &'static str {
        match self {
            Tier::Quick => "quick",
            Tier::Thorough => "thorough",
        }
    }
    /// pick by tier
    pub fn pick<T>(&self, quick: T, thorough: T) -> T {
        match self {
            Tier::Quick => quick,
            Tier::Thorough => thorough,
        }
    }
}

/// Result of checking one concrete case.
#[derive(Clone, Debug)]
pub enum Verdict {
    Pass,
    /// outside the property's premise (undefined result, not accepted, ...)
    Discard(&'static str),
    /// property violated; `signature` names the failing class, `detail` the concrete evidence
    Fail { signature: String, detail: String },
    /// watchdog / resource limit: never a violation
    Inconclusive(String),
}

impl Verdict {
    pub fn fail(signature: impl Into<String>, detail: impl Into<String>) -> Verdict {
        Verdict::Fail { signature: signature.into(), detail: detail.into() }
    }
    pub fn is_fail(&self) -> bool {
        matches!(self, Verdict::Fail { .. })
    }
}

pub fn verif_root() -> PathBuf {
    std::env::var_os("VERIF_ROOT").map(PathBuf::from).unwrap_or_else(|| PathBuf::from("/verif"))
}

pub fn scratch_dir() -> PathBuf {
    let d = verif_root().join("harness/target/verif-tmp");
    let _ = std::fs::create_dir_all(&d);
    d
}

pub fn splitmix(mut x: u64) -> u64 {
    x = x.wrapping_add(0x9e3779b97f4a7c15);
    let mut z = x;
    z = (z ^ (z >> 30)).wrapping_mul(0xbf58476d1ce4e5b9);
    z = (z ^ (z >> 27)).wrapping_mul(0x94d049bb133111eb);
    z ^ (z >> 31)
}

pub fn fnv(bytes: &[u8]) -> u64 {
    let mut h: u64 = 0xcbf29ce484222325;
    for b in bytes {
        h ^= *b as u64;
        h = h.wrapping_mul(0x100000001b3);
    }
    h
}

pub fn fnv_str(s: &str) -> u64 {
    fnv(s.as_bytes())
}

// ---- known findings ------------------------------------------------------------------------

#[derive(Clone, Debug, Default)]
pub struct Known {
    /// (property, key) -> description, for `open:` entries
    pub open: BTreeMap<(String, String), String>,
}

impl Known {
    pub fn load() -> Known {
        let mut k = Known::default();
        let p = verif_root().join("KNOWN_FINDINGS.txt");
        if let Ok(s) = std::fs::read_to_string(p) {
            for line in s.lines() {
                let line = line.trim();
                if let Some(rest) = line.strip_prefix("open:") {
                    let mut prop = None;
                    let mut key = None;
                    let mut desc = Vec::new();
                    for w in rest.split_whitespace() {
                        if let Some(v) = w.strip_prefix("property=") {
                            if prop.is_none() {
                                prop = Some(v.to_string());
                                continue;
                            }
                        }
                        if let Some(v) = w.strip_prefix("key=") {
                            if key.is_none() {
                                key = Some(v.to_string());
                                continue;
                            }
                        }
                        desc.push(w);
                    }
                    if let (Some(p), Some(k2)) = (prop, key) {
                        k.open.insert((p, k2), desc.join(" "));
                    }
                }
            }
        }
        k
    }
    pub fn is_open(&self, prop: &str, key: &str) -> bool {
        self.open.contains_key(&(prop.to_string(), key.to_string()))
    }
}

// ---- statistics ----------------------------------------------------------------------------

#[derive(Default, Debug)]
pub struct Stats {
    pub evaluations: u64,
    pub nontrivial: HashSet<u64>,
    /// non-trivial cases that are distinct by construction (exhaustive enumerations), counted
    /// instead of hashed
    pub distinct_by_construction: u64,
    pub classes: BTreeMap<String, u64>,
    pub samples: Vec<Value>,
    pub discarded: BTreeMap<String, u64>,
    pub excluded_known: BTreeMap<String, u64>,
    pub extra: BTreeMap<String, Value>,
    pub violations: Vec<Value>,
    pub inconclusive: Vec<String>,
    pub exhaustive: Option<bool>,
    /// named 256-bit sets (e.g. opcodes executed), OR-merged across workers
    pub bitsets: BTreeMap<String, [u64; 4]>,
    frozen: bool,
}

impl Stats {
    pub fn class(&mut self, name: &str) {
        if !self.frozen {
            *self.classes.entry(name.to_string()).or_insert(0) += 1;
        }
    }
    pub fn class_n(&mut self, name: &str, n: u64) {
        if !self.frozen {
            *self.classes.entry(name.to_string()).or_insert(0) += n;
        }
    }
    pub fn eval(&mut self) {
        if !self.frozen {
            self.evaluations += 1;
        }
    }
    pub fn nontrivial(&mut self, hash: u64) {
        if !self.frozen {
            self.nontrivial.insert(hash);
        }
    }
    pub fn sample(&mut self, max: usize, f: impl FnOnce() -> Value) {
        if !self.frozen && self.samples.len() < max {
            self.samples.push(f());
        }
    }
    pub fn or_bits(&mut self, name: &str, bits: &[u64; 4]) {
        if !self.frozen {
            let e = self.bitsets.entry(name.to_string()).or_insert([0; 4]);
            for k in 0..4 {
                e[k] |= bits[k];
            }
        }
    }
    pub fn is_frozen(&self) -> bool {
        self.frozen
    }

    pub fn to_json(&self) -> Value {
        json!({
            "evaluations": self.evaluations,
            "nontrivial": self.nontrivial.iter().collect::<Vec<_>>(),
            "distinct_by_construction": self.distinct_by_construction,
            "classes": self.classes,
            "samples": self.samples,
            "discarded": self.discarded,
            "excluded_known": self.excluded_known,
            "extra": self.extra,
            "violations": self.violations,
            "inconclusive": self.inconclusive,
            "exhaustive": self.exhaustive,
            "bitsets": self.bitsets.iter().map(|(k, v)| (k.clone(), v.iter().map(|x| x.to_string()).collect::<Vec<_>>())).collect::<BTreeMap<_, _>>(),
        })
    }

    pub fn merge_json(&mut self, v: &Value) {
        self.evaluations += v["evaluations"].as_u64().unwrap_or(0);
        self.distinct_by_construction += v["distinct_by_construction"].as_u64().unwrap_or(0);
        if let Some(a) = v["nontrivial"].as_array() {
            for h in a {
                if let Some(h) = h.as_u64() {
                    self.nontrivial.insert(h);
                }
            }
        }
        for (name, field) in [("classes", 0), ("discarded", 1), ("excluded_known", 2)] {
            if let Some(m) = v[name].as_object() {
                for (k, n) in m {
                    let tgt = match field {
                        0 => &mut self.classes,
                        1 => &mut self.discarded,
                        _ => &mut self.excluded_known,
                    };
                    *tgt.entry(k.clone()).or_insert(0) += n.as_u64().unwrap_or(0);
                }
            }
        }
        if let Some(a) = v["samples"].as_array() {
            for s in a {
                if self.samples.len() < 12 {
                    self.samples.push(s.clone());
                }
            }
        }
        if let Some(m) = v["extra"].as_object() {
            for (k, x) in m {
                // numeric extras are summed, everything else keeps the first value
                match (self.extra.get(k).and_then(|o| o.as_u64()), x.as_u64()) {
                    (Some(a), Some(b)) => {
                        self.extra.insert(k.clone(), json!(a + b));
                    }
                    (None, _) if !self.extra.contains_key(k) => {
                        self.extra.insert(k.clone(), x.clone());
                    }
                    _ => {}
                }
            }
        }
        if let Some(a) = v["violations"].as_array() {
            self.violations.extend(a.iter().cloned());
        }
        if let Some(a) = v["inconclusive"].as_array() {
            self.inconclusive.extend(a.iter().filter_map(|s| s.as_str().map(String::from)));
        }
        if let Some(m) = v["bitsets"].as_object() {
            for (k, arr) in m {
                let e = self.bitsets.entry(k.clone()).or_insert([0; 4]);
                for i in 0..4 {
                    e[i] |= arr[i].as_str().and_then(|s| s.parse::<u64>().ok()).unwrap_or(0);
                }
            }
        }
        if let Some(b) = v["exhaustive"].as_bool() {
            self.exhaustive = Some(self.exhaustive.unwrap_or(true) && b);
        }
    }
}

// ---- context -------------------------------------------------------------------------------

pub struct Ctx {
    pub prop: &'static str,
    pub tier: Tier,
    pub seed: u64,
    pub worker: usize,
    pub nworkers: usize,
    pub known: Known,
    pub stats: RefCell<Stats>,
    /// strict = replay mode: known findings are not suppressed by the search machinery
    pub strict: bool,
    /// shrink budget for proptest (cheap checks raise it)
    pub shrink_iters: std::cell::Cell<u32>,
}

impl Ctx {
    pub fn new(prop: &'static str, tier: Tier, seed: u64, worker: usize, nworkers: usize) -> Ctx {
        Ctx {
            prop,
            tier,
            seed,
            worker,
            nworkers,
            known: Known::load(),
            stats: RefCell::new(Stats::default()),
            strict: false,
            shrink_iters: std::cell::Cell::new(4000),
        }
    }

    pub fn worker_seed(&self, stream: &str) -> u64 {
        splitmix(self.seed ^ splitmix(fnv_str(self.prop) ^ fnv_str(stream)) ^ splitmix(self.worker as u64 + 1))
    }

    /// Split `total` units of work evenly over the workers.
    pub fn share(&self, total: u64) -> u64 {
        let n = self.nworkers as u64;
        total / n + if (self.worker as u64) < total % n { 1 } else { 0 }
    }

    pub fn stats(&self) -> std::cell::RefMut<'_, Stats> {
        self.stats.borrow_mut()
    }

    /// Record the verdict of one generated case. Returns true when the search should treat the
    /// case as failing (a new violation).
    pub fn account(&self, verdict: &Verdict) -> bool {
        let mut st = self.stats.borrow_mut();
        match verdict {
            Verdict::Pass => false,
            Verdict::Discard(why) => {
                if !st.frozen {
                    *st.discarded.entry(why.to_string()).or_insert(0) += 1;
                }
                false
            }
            Verdict::Inconclusive(why) => {
                if !st.frozen && st.inconclusive.len() < 20 {
                    st.inconclusive.push(why.clone());
                }
                false
            }
            Verdict::Fail { signature, .. } => {
                if !self.strict && self.known.is_open(self.prop, signature) {
                    if !st.frozen {
                        *st.excluded_known.entry(signature.clone()).or_insert(0) += 1;
                    }
                    false
                } else {
                    true
                }
            }
        }
    }

    /// Save a failing case as a replay file and record the violation.
    pub fn record_violation(&self, signature: &str, detail: &str, kind: &str, case: Value) {
        let dir = verif_root().join("replays").join(self.prop);
        let _ = std::fs::create_dir_all(&dir);
        let body = json!({
            "property": self.prop,
            "kind": kind,
            "signature": signature,
            "detail": detail,
            "seed": self.seed,
            "case": case,
            "expect": "pass",
        });
        let text = serde_json::to_string_pretty(&body).unwrap();
        let h = fnv(serde_json::to_string(&body["case"]).unwrap().as_bytes()) ^ fnv_str(kind);
        let path = dir.join(format!("found-{:016x}.json", h));
        let _ = std::fs::write(&path, text);
        let mut st = self.stats.borrow_mut();
        st.frozen = false;
        st.violations.push(json!({
            "signature": signature,
            "detail": detail,
            "replay": path.to_string_lossy(),
        }));
    }

    /// Run a proptest search. `check(value, want_case)` maps a generated value to (verdict,
    /// concrete case as JSON when `want_case`); it is re-run by proptest during shrinking, during
    /// which statistics are frozen.
    pub fn search<T, S>(
        &self,
        stream: &str,
        kind: &'static str,
        cases: u64,
        strategy: S,
        check: impl Fn(&T, bool) -> (Verdict, Value),
    ) where
        T: Debug,
        S: Strategy<Value = T>,
    {
        if cases == 0 {
            return;
        }
        let mut seed_bytes = [0u8; 32];
        let mut s = self.worker_seed(stream);
        for chunk in seed_bytes.chunks_mut(8) {
            s = splitmix(s);
            chunk.copy_from_slice(&s.to_le_bytes());
        }
        let config = Config {
            cases: cases.min(u32::MAX as u64) as u32,
            failure_persistence: None,
            max_shrink_iters: self.shrink_iters.get(),
            max_global_rejects: 1_000_000,
            max_local_rejects: 1_000_000,
            verbose: 0,
            ..Config::default()
        };
        let mut runner = TestRunner::new_with_rng(config, TestRng::from_seed(RngAlgorithm::ChaCha, &seed_bytes));
        let res = runner.run(&strategy, |t| {
            let (v, _) = check(&t, false);
            if self.account(&v) {
                // from now on proptest shrinks: freeze the counters
                self.stats.borrow_mut().frozen = true;
                match v {
                    Verdict::Fail { signature, .. } => Err(TestCaseError::fail(signature)),
                    _ => unreachable!(),
                }
            } else {
                Ok(())
            }
        });
        match res {
            Ok(()) => {}
            Err(TestError::Fail(reason, minimal)) => {
                let (v, case) = check(&minimal, true);
                match v {
                    Verdict::Fail { signature, detail } => {
                        self.record_violation(&signature, &detail, kind, case)
                    }
                    other => {
                        // should not happen (deterministic checks); keep the evidence anyway
                        self.record_violation(
                            reason.message(),
                            &format!("observed during the search; the shrunk case did not fail again when re-run ({other:?}) - schedule- or address-dependent"),
                            kind,
                            case,
                        )
                    }
                }
            }
            Err(TestError::Abort(why)) => {
                let mut st = self.stats.borrow_mut();
                st.frozen = false;
                st.inconclusive.push(format!("proptest aborted: {why}"));
            }
        }
        self.stats.borrow_mut().frozen = false;
    }

    /// Account for one case of an enumerated (non-proptest) domain; on failure the case is
    /// recorded directly (no shrinking: enumerations start from the smallest cases).
    pub fn enumerate_case(&self, verdict: Verdict, kind: &'static str, case: impl FnOnce() -> Value) -> bool {
        if self.account(&verdict) {
            if let Verdict::Fail { signature, detail } = verdict {
                self.record_violation(&signature, &detail, kind, case());
            }
            true
        } else {
            false
        }
    }
}

// ---- evidence ------------------------------------------------------------------------------

pub struct PropInfo {
    pub id: &'static str,
    pub rule: &'static str,
    pub assumptions: &'static [&'static str],
}

pub fn write_evidence(info: &PropInfo, tier: Tier, seed: u64, stats: &Stats, wall_s: f64, nworkers: usize, replays_run: usize, known_lines: &BTreeSet<String>) {
    let mut cov = Map::new();
    cov.insert("evaluations".into(), json!(stats.evaluations));
    cov.insert("distinct_nontrivial".into(), json!(stats.nontrivial.len() as u64 + stats.distinct_by_construction));
    cov.insert("distinct_nontrivial_hashed".into(), json!(stats.nontrivial.len()));
    cov.insert("distinct_nontrivial_enumerated".into(), json!(stats.distinct_by_construction));
    cov.insert("rule".into(), json!(info.rule));
    cov.insert("samples".into(), Value::Array(stats.samples.clone()));
    cov.insert("class_histogram".into(), json!(stats.classes));
    cov.insert("discarded".into(), json!(stats.discarded));
    cov.insert("excluded_known".into(), json!(stats.excluded_known));
    cov.insert("replays_run".into(), json!(replays_run));
    cov.insert("workers".into(), json!(nworkers));
    cov.insert("known_findings_reported".into(), json!(known_lines.iter().collect::<Vec<_>>()));
    cov.insert("inconclusive".into(), json!(stats.inconclusive));
    if let Some(e) = stats.exhaustive {
        cov.insert("exhaustive".into(), json!(e));
    }
    for (k, v) in &stats.extra {
        cov.insert(k.clone(), v.clone());
    }
    for (k, v) in &stats.bitsets {
        cov.insert(format!("distinct_{k}"), json!(v.iter().map(|x| x.count_ones() as u64).sum::<u64>()));
    }
    let ev = json!({
        "property_id": info.id,
        "tier": tier.name(),
        "seed": seed,
        "level": "exploration",
        "coverage": Value::Object(cov),
        "assumptions": info.assumptions,
        "wall_s": (wall_s * 1000.0).round() / 1000.0,
        "violations": stats.violations.len(),
        "violation_details": stats.violations,
    });
    let dir = verif_root().join("evidence");
    let _ = std::fs::create_dir_all(&dir);
    let path = dir.join(format!("{}.json", info.id));
    std::fs::write(path, serde_json::to_string_pretty(&ev).unwrap()).expect("write evidence");
}

pub fn read_json(path: &Path) -> Option<Value> {
    let s = std::fs::read_to_string(path).ok()?;
    serde_json::from_str(&s).ok()
}
