//! G-struct: structured eBPF programs as a tree (so that every proptest shrink step is again a
//! valid, verifier-accepted program), and their lowering to bytes plus inputs.

use crate::engine::splitmix;
use crate::isa::*;
use crate::runner::{ExecCase, VmKind};
use proptest::prelude::*;

#[derive(Clone, Debug)]
pub enum Src {
    Reg(u8),
    Imm(i32),
}

#[derive(Clone, Copy, Debug, PartialEq, Eq)]
pub enum MemRegion {
    Stack,
    Pkt,
    Mbuff,
}

#[derive(Clone, Copy, Debug, PartialEq, Eq)]
pub enum MemOp {
    Load,
    StoreReg,
    StoreImm(i32),
    Xadd,
}

#[derive(Clone, Debug)]
pub enum Item {
    Alu { op: u8, is64: bool, dst: u8, src: Src },
    Neg { is64: bool, dst: u8 },
    Endian { be: bool, width: u8, dst: u8 },
    Lddw { dst: u8, val: u64 },
    /// `oob` > 0: the access ends that many bytes past the end of the region (packet / metadata
    /// only): the interpreter must return an error, the compiled engines are not run
    Mem { region: MemRegion, op: MemOp, size: u8, reg: u8, tmp: u8, pos: u16, split: i16, oob: u8 },
    LdAbs { size: u8, pos: u16 },
    /// packet load, a store through a pointer to (some of) the same packet bytes, the same packet
    /// load again: the second load must see the store
    LdStLd { size: u8, pos: u16, wsize: u8, val: i32, keep: u8, tmp: u8, ind: bool, reg_store: bool },
    /// `neg` = Some(imm < 0): the index register is chosen so that packet + index + zx(imm) is
    /// the intended in-bounds address (the interpreter zero-extends the immediate)
    LdInd { size: u8, src: u8, pos: u16, split: u16, neg: Option<i32> },
    If { cond: u8, is64: bool, dst: u8, src: Src, body: Vec<Item>, els: Vec<Item> },
    Skip { body: Vec<Item> },
    /// `pre` runs once, after the counter is initialised and before the loop head: the target of
    /// the back edge then has a predecessor that falls through into it
    Loop { count: u8, tmp: u8, variant: u8, pre: Vec<Item>, body: Vec<Item> },
    Helper { which: u8, args: [Src; 5], post: [i32; 5] },
    Call { f: u8 },
    PtrArith { a: u8, b: u8, k: i32, cond: u8 },
    Pad { n: u16, kind: u8 },
    EarlyExit,
}

#[derive(Clone, Debug)]
pub enum VmSel {
    NoData,
    Raw,
    Mbuff { data_slot: u8, end_slot: u8 },
    Fixed { data_off: u16, end_off: u16 },
}

#[derive(Clone, Debug)]
pub struct Program {
    pub vm: VmSel,
    pub init: [u64; 10],
    pub window: [u64; 8],
    pub main: Vec<Item>,
    pub funcs: Vec<Vec<Item>>,
    /// number of filler instructions before main's body, between functions, ... (long programs)
    pub big_pad: Vec<u32>,
    pub junk: u64,
    pub pkt: Vec<u8>,
    pub mbuff_data: Vec<u8>,
    pub pkt_at_end: bool,
    pub helper_ids: Vec<(u32, u8)>,
    /// call a helper id that is not registered (model: Err when reached)
    pub unregistered: bool,
}

pub const WINDOW_TOP: i16 = 40; // window is [r10-104, r10-40)
pub const WINDOW_SLOTS: usize = 8;
pub const CTX_SLOT: i16 = -8;

// ---- strategies ------------------------------------------------------------------------------

pub fn interesting_u64() -> impl Strategy<Value = u64> {
    prop_oneof![
        4 => prop::sample::select(vec![
            0u64, 1, 2, 0xff, 0x7f, 0x80, 0xffff, 0x7fff_ffff, 0x8000_0000, 0xffff_ffff, 0x1_0000_0000, 0x7fff_ffff_ffff_ffff,
            0x8000_0000_0000_0000, 0xffff_ffff_ffff_ffff, 0xffff_ffff_0000_0000, 0xffff_ffff_8000_0000, 0x0000_0001_ffff_ffff,
            31, 32, 33, 63, 64, 65, 0x0123_4567_89ab_cdef, 0xfedc_ba98_7654_3210, 0xffff_ffff_ffff_fffe, 0x8000_0000_0000_0001,
        ]),
        3 => any::<u64>(),
        1 => any::<u32>().prop_map(|x| x as u64),
        1 => any::<i32>().prop_map(|x| x as i64 as u64),
    ]
}

pub fn interesting_i32() -> impl Strategy<Value = i32> {
    prop_oneof![
        4 => prop::sample::select(vec![0i32, 1, -1, 2, -2, 31, 32, 33, 63, 64, 65, 127, 128, -128, -129, 255, 256, 0x7fff, 0x8000, 0xffff, i32::MAX, i32::MIN, i32::MIN + 1, i32::MAX - 1, 0x00ff_00ff, -256]),
        3 => any::<i32>(),
        1 => -40i32..40,
    ]
}

fn reg() -> impl Strategy<Value = u8> {
    0u8..10
}

fn src() -> impl Strategy<Value = Src> {
    prop_oneof![reg().prop_map(Src::Reg), interesting_i32().prop_map(Src::Imm)]
}

fn size() -> impl Strategy<Value = u8> {
    prop::sample::select(vec![1u8, 2, 4, 8])
}

fn leaf(allow_calls: bool, nfuncs: usize, allow_pkt: bool) -> BoxedStrategy<Item> {
    let alu = (prop::sample::select(BINARY_ALU_OPS.to_vec()), any::<bool>(), reg(), src()).prop_map(|(op, is64, dst, src)| Item::Alu { op, is64, dst, src });
    let neg = (any::<bool>(), reg()).prop_map(|(is64, dst)| Item::Neg { is64, dst });
    let endian = (any::<bool>(), prop::sample::select(vec![16u8, 32, 64]), reg()).prop_map(|(be, width, dst)| Item::Endian { be, width, dst });
    let lddw = (reg(), interesting_u64()).prop_map(|(dst, val)| Item::Lddw { dst, val });
    let memop = prop_oneof![3 => Just(MemOp::Load), 3 => Just(MemOp::StoreReg), 2 => interesting_i32().prop_map(MemOp::StoreImm), 1 => Just(MemOp::Xadd)];
    let region = if allow_pkt {
        prop_oneof![3 => Just(MemRegion::Stack), 3 => Just(MemRegion::Pkt), 1 => Just(MemRegion::Mbuff)].boxed()
    } else {
        Just(MemRegion::Stack).boxed()
    };
    let mem = (region, memop, size(), reg(), reg(), any::<u16>(), prop_oneof![2 => Just(0i16), 2 => any::<i16>(), 1 => -200i16..200], prop_oneof![150 => Just(0u8), 1 => 1u8..9])
        .prop_map(|(region, op, size, reg, tmp, pos, split, oob)| Item::Mem { region, op, size, reg, tmp, pos, split, oob });
    let ldabs = (size(), any::<u16>()).prop_map(|(size, pos)| Item::LdAbs { size, pos });
    let ldstld = (size(), any::<u16>(), size(), interesting_i32(), 0u8..4, 0u8..5, any::<bool>(), any::<bool>())
        .prop_map(|(size, pos, wsize, val, keep, tmp, ind, reg_store)| Item::LdStLd { size, pos, wsize, val, keep: 6 + keep, tmp: 1 + tmp, ind, reg_store });
    let ldind = (size(), reg(), any::<u16>(), any::<u16>(), prop_oneof![6 => Just(None), 1 => prop_oneof![Just(-1i32), Just(i32::MIN), -70000i32..0, any::<i32>().prop_map(|x| x | i32::MIN)].prop_map(Some)])
        .prop_map(|(size, src, pos, split, neg)| Item::LdInd { size, src, pos, split, neg });
    let helper = (any::<u8>(), [src(), src(), src(), src(), src()], [interesting_i32(), interesting_i32(), interesting_i32(), interesting_i32(), interesting_i32()])
        .prop_map(|(which, args, post)| Item::Helper { which, args, post });
    let ptr = (reg(), reg(), -64i32..64, prop::sample::select(JUMP_CONDS.to_vec())).prop_map(|(a, b, k, cond)| Item::PtrArith { a, b, k, cond });
    let pad = (1u16..6, any::<u8>()).prop_map(|(n, kind)| Item::Pad { n, kind });
    let mut v: Vec<(u32, BoxedStrategy<Item>)> = vec![
        (30, alu.boxed()),
        (3, neg.boxed()),
        (4, endian.boxed()),
        (3, lddw.boxed()),
        (14, mem.boxed()),
        (3, helper.boxed()),
        (2, ptr.boxed()),
        (1, pad.boxed()),
    ];
    if allow_pkt {
        v.push((3, ldabs.boxed()));
        v.push((3, ldind.boxed()));
        v.push((2, ldstld.boxed()));
    }
    if allow_calls && nfuncs > 0 {
        v.push((4, (0..nfuncs as u8).prop_map(|f| Item::Call { f }).boxed()));
    }
    proptest::strategy::Union::new_weighted(v).boxed()
}

fn items(allow_calls: bool, nfuncs: usize, allow_pkt: bool, top: bool) -> BoxedStrategy<Vec<Item>> {
    let l = leaf(allow_calls, nfuncs, allow_pkt);
    let item = l.prop_recursive(3, 40, 6, move |inner| {
        let body = prop::collection::vec(inner.clone(), 0..6);
        prop_oneof![
            5 => (prop::sample::select(JUMP_CONDS.to_vec()), any::<bool>(), reg(), src(), body.clone(), prop_oneof![3 => Just(vec![]), 1 => prop::collection::vec(inner.clone(), 1..4)])
                .prop_map(|(cond, is64, dst, src, body, els)| Item::If { cond, is64, dst, src, body, els }),
            1 => body.clone().prop_map(|body| Item::Skip { body }),
            2 => (1u8..6, reg(), any::<u8>(), prop_oneof![2 => Just(vec![]), 1 => prop::collection::vec(inner.clone(), 1..3)], body.clone()).prop_map(|(count, tmp, variant, pre, body)| Item::Loop { count, tmp, variant, pre, body }),
            1 => Just(Item::EarlyExit),
        ]
    });
    prop::collection::vec(item, if top { 1..24 } else { 0..10 }).boxed()
}

fn vm_sel() -> impl Strategy<Value = VmSel> {
    prop_oneof![
        2 => Just(VmSel::NoData),
        3 => Just(VmSel::Raw),
        3 => (0u8..4, 0u8..4).prop_map(|(a, b)| VmSel::Mbuff { data_slot: a, end_slot: if a == b { (b + 1) % 4 } else { b } }),
        3 => (prop::sample::select(vec![0u16, 8, 16, 0x40, 0x50, 100, 1000, 4088]), prop::sample::select(vec![0u16, 8, 16, 0x40, 0x50, 108, 2000, 4096]), 0u8..64)
            .prop_map(|(a, b, ov)| {
                // one case in eight: the two 8-byte slots overlap (same slot, or 1-7 bytes apart in
                // either order). Legal for `EbpfVmFixedMbuff::new`; the start pointer is written
                // first and the end pointer second, so only the end slot is a whole pointer.
                let end_off = match ov {
                    0..=3 => a,
                    4..=5 => a + 1 + (ov as u16 * 5 + b) % 7,
                    6..=7 if a >= 8 => a - 1 - (ov as u16 * 5 + b) % 7,
                    _ if (a as i32 - b as i32).abs() < 8 => a + 8,
                    _ => b,
                };
                VmSel::Fixed { data_off: a, end_off }
            }),
    ]
}

/// Programs for C01 / C03 / C04 / C12. `local_calls`: allow eBPF-to-eBPF calls.
pub fn program(local_calls: bool, long: bool) -> impl Strategy<Value = Program> {
    let nfuncs = if local_calls { 0usize..3 } else { 0usize..1 };
    (vm_sel(), nfuncs)
        .prop_flat_map(move |(vm, nf)| {
            let allow_pkt = true;
            let funcs = prop::collection::vec(items(false, 0, false, false), nf..=nf);
            let big_pad = if long {
                prop::collection::vec(prop_oneof![2 => Just(0u32), 2 => 32_700u32..33_000, 1 => 65_500u32..66_000, 1 => 1000u32..3000], 2 + nf).boxed()
            } else {
                Just(vec![0u32; 2 + nf]).boxed()
            };
            (
                Just(vm),
                [interesting_u64(), interesting_u64(), interesting_u64(), interesting_u64(), interesting_u64(), interesting_u64(), interesting_u64(), interesting_u64(), interesting_u64(), interesting_u64()],
                [interesting_u64(), interesting_u64(), interesting_u64(), interesting_u64(), interesting_u64(), interesting_u64(), interesting_u64(), interesting_u64()],
                items(true, nf, allow_pkt, true),
                funcs,
                big_pad,
                any::<u64>(),
                prop_oneof![1 => Just(vec![]), 6 => prop::collection::vec(any::<u8>(), 1..64), 1 => prop::collection::vec(any::<u8>(), 64..200)],
                prop::collection::vec(any::<u8>(), 8..48),
                (any::<bool>(), prop::collection::vec((prop_oneof![2 => 0u32..8, 1 => prop::sample::select(vec![0x7fff_ffffu32, 0x8000_0000, 0xffff_ffff, 0xffff_fffe]), 1 => any::<u32>()], 0u8..8), 1..4), prop::bool::weighted(0.02)),
            )
        })
        .prop_map(|(vm, init, window, main, funcs, big_pad, junk, pkt, mbuff_data, (pkt_at_end, helper_ids, unregistered))| Program {
            vm,
            init,
            window,
            main,
            funcs,
            big_pad,
            junk,
            pkt,
            mbuff_data,
            pkt_at_end,
            helper_ids,
            unregistered,
        })
}

// ---- lowering --------------------------------------------------------------------------------

struct Lower<'a> {
    p: &'a Program,
    vm: VmKind,
    out: Vec<Insn>,
    /// (index of call instruction, function number)
    call_fixups: Vec<(usize, usize)>,
    pkt_len: usize,
    pkt_mod8: usize,
    mbuff_len: usize,
    mbuff_lo: usize,
    in_func: bool,
}

fn mix(a: u64, b: u64) -> u64 {
    splitmix(a ^ splitmix(b))
}

impl<'a> Lower<'a> {
    fn emit(&mut self, i: Insn) {
        self.out.push(i);
    }

    fn mov_imm64(&mut self, dst: u8, val: u64) {
        if val as i64 >= i32::MIN as i64 && val as i64 <= i32::MAX as i64 && val & 3 != 3 {
            self.emit(Insn::new(alu_opc(true, ALU_MOV, false), dst, 0, 0, val as i64 as i32));
        } else {
            self.emit(Insn::new(LDDW, dst, 0, 0, val as u32 as i32));
            self.emit(Insn::new(0, 0, 0, 0, (val >> 32) as u32 as i32));
        }
    }

    fn src_fields(&self, s: &Src) -> (bool, u8, i32) {
        match s {
            Src::Reg(r) => (true, *r, 0),
            Src::Imm(i) => (false, 0, *i),
        }
    }

    /// pointer to the start of the packet into `tmp`; false if this VM has no packet
    fn pkt_ptr(&mut self, tmp: u8) -> bool {
        if self.pkt_len == 0 || self.in_func {
            return false;
        }
        match self.vm {
            VmKind::NoData => false,
            VmKind::Raw => {
                self.emit(Insn::new(ldx_opc(8), tmp, 10, CTX_SLOT, 0));
                true
            }
            VmKind::Fixed { data_off, end_off } if (data_off as i64 - end_off as i64).abs() < 8 => {
                // overlapping slots: the end pointer is the one that survives; walk back from it
                self.emit(Insn::new(ldx_opc(8), tmp, 10, CTX_SLOT, 0));
                self.emit(Insn::new(ldx_opc(8), tmp, tmp, end_off as i16, 0));
                self.emit(Insn::new(alu_opc(true, ALU_ADD, false), tmp, 0, 0, -(self.pkt_len as i32)));
                true
            }
            VmKind::Mbuff { data_off, .. } | VmKind::Fixed { data_off, .. } => {
                self.emit(Insn::new(ldx_opc(8), tmp, 10, CTX_SLOT, 0));
                if data_off > 32000 {
                    self.emit(Insn::new(alu_opc(true, ALU_ADD, false), tmp, 0, 0, data_off as i32));
                    self.emit(Insn::new(ldx_opc(8), tmp, tmp, 0, 0));
                } else {
                    self.emit(Insn::new(ldx_opc(8), tmp, tmp, data_off as i16, 0));
                }
                true
            }
        }
    }

    fn mbuff_ptr(&mut self, tmp: u8) -> bool {
        if self.in_func {
            return false;
        }
        match self.vm {
            VmKind::Mbuff { .. } if self.mbuff_len > self.mbuff_lo => {
                self.emit(Insn::new(ldx_opc(8), tmp, 10, CTX_SLOT, 0));
                true
            }
            _ => false,
        }
    }

    fn fold_epilogue(&mut self) {
        // r0 = fold of every register and every window slot, then exit
        for r in 1..=9u8 {
            self.emit(Insn::new(alu_opc(true, ALU_MUL, false), 0, 0, 0, 31 + 2 * r as i32));
            self.emit(Insn::new(alu_opc(true, if r % 2 == 0 { ALU_XOR } else { ALU_ADD }, true), 0, r, 0, 0));
        }
        for s in 0..WINDOW_SLOTS as i16 {
            self.emit(Insn::new(ldx_opc(8), 1, 10, -(WINDOW_TOP + 8 * (s + 1)), 0));
            self.emit(Insn::new(alu_opc(true, ALU_MUL, false), 0, 0, 0, 1_000_003));
            self.emit(Insn::new(alu_opc(true, ALU_ADD, true), 0, 1, 0, 0));
        }
        self.emit(Insn::new(EXIT, 0, 0, 0, 0));
    }

    fn window_init(&mut self, salt: u64) {
        for s in 0..WINDOW_SLOTS {
            let v = self.p.window[s] ^ salt.wrapping_mul(s as u64 + 1);
            let off = -(WINDOW_TOP + 8 * (s as i16 + 1));
            if (v as i64) >= i32::MIN as i64 && (v as i64) <= i32::MAX as i64 {
                self.emit(Insn::new(st_opc(8), 10, 0, off, v as i64 as i32));
            } else if s % 2 == 0 {
                // two word stores
                self.emit(Insn::new(st_opc(4), 10, 0, off, v as u32 as i32));
                self.emit(Insn::new(st_opc(4), 10, 0, off + 4, (v >> 32) as u32 as i32));
            } else {
                self.emit(Insn::new(st_opc(8), 10, 0, off, v as u32 as i32));
            }
        }
    }

    fn filler(&mut self, n: usize, kind: u8) {
        for k in 0..n {
            let r = ((k as u8).wrapping_add(kind)) % 10;
            let i = match (kind as usize + k) % 4 {
                0 => Insn::new(JA, 0, 0, 0, 0),
                1 => Insn::new(alu_opc(true, ALU_MOV, true), r, r, 0, 0),
                2 => Insn::new(alu_opc(true, ALU_ADD, false), r, 0, 0, 0),
                _ => Insn::new(alu_opc(true, ALU_OR, true), r, r, 0, 0),
            };
            self.emit(i);
        }
    }

    fn lower_items(&mut self, items: &[Item], loop_depth: usize) {
        for it in items {
            self.lower_item(it, loop_depth);
        }
    }

    fn lower_item(&mut self, it: &Item, loop_depth: usize) {
        match it {
            Item::Alu { op, is64, dst, src } => {
                let (reg, s, imm) = self.src_fields(src);
                self.emit(Insn::new(alu_opc(*is64, *op, reg), *dst, s, 0, imm));
            }
            Item::Neg { is64, dst } => self.emit(Insn::new(if *is64 { NEG64 } else { NEG32 }, *dst, 0, 0, 0)),
            Item::Endian { be, width, dst } => self.emit(Insn::new(if *be { BE } else { LE }, *dst, 0, 0, *width as i32)),
            Item::Lddw { dst, val } => {
                self.emit(Insn::new(LDDW, *dst, 0, 0, *val as u32 as i32));
                self.emit(Insn::new(0, 0, 0, 0, (*val >> 32) as u32 as i32));
            }
            Item::Mem { region, op, size, reg, tmp, pos, split, oob } => {
                let n = *size as usize;
                let (tmp, mut reg) = (*tmp, *reg);
                if matches!(op, MemOp::StoreReg | MemOp::Xadd) && reg == tmp {
                    reg = (tmp + 1) % 10;
                }
                // region length, base alignment, lowest usable offset, how the pointer is obtained
                let (len, mod8, lo) = match region {
                    MemRegion::Stack => (WINDOW_SLOTS * 8, 0usize, 0usize),
                    MemRegion::Pkt => (self.pkt_len, self.pkt_mod8, 0),
                    MemRegion::Mbuff => (self.mbuff_len, 0, self.mbuff_lo),
                };
                if len < lo + n {
                    return;
                }
                let mut o = lo + ((*pos as usize * (len - lo - n + 1)) >> 16);
                if *oob > 0 && *region != MemRegion::Stack && *op != MemOp::Xadd {
                    o = len - n + *oob as usize;
                }
                if *op == MemOp::Xadd {
                    if n < 4 {
                        return;
                    }
                    // naturally aligned real address
                    while (mod8 + o) % n != 0 && o > lo {
                        o -= 1;
                    }
                    if (mod8 + o) % n != 0 {
                        o += n - (mod8 + o) % n;
                    }
                    if o + n > len {
                        return;
                    }
                }
                // offset of the access relative to the pointer we will hold
                let (base_reg, rel): (u8, i64) = match region {
                    MemRegion::Stack => {
                        let rel = -(WINDOW_TOP as i64 + 64) + o as i64;
                        if *split == 0 {
                            (10, rel)
                        } else {
                            self.emit(Insn::new(alu_opc(true, ALU_MOV, true), tmp, 10, 0, 0));
                            (tmp, rel)
                        }
                    }
                    MemRegion::Pkt => {
                        if !self.pkt_ptr(tmp) {
                            return;
                        }
                        (tmp, o as i64)
                    }
                    MemRegion::Mbuff => {
                        if !self.mbuff_ptr(tmp) {
                            return;
                        }
                        (tmp, o as i64)
                    }
                };
                let mut off = rel;
                if base_reg != 10 && *split != 0 {
                    // move part of the displacement into the register
                    let k = *split as i64;
                    self.emit(Insn::new(alu_opc(true, ALU_ADD, false), base_reg, 0, 0, k as i32));
                    off = rel - k;
                    if off < i16::MIN as i64 || off > i16::MAX as i64 {
                        let fix = off - (off.clamp(i16::MIN as i64, i16::MAX as i64));
                        self.emit(Insn::new(alu_opc(true, ALU_ADD, false), base_reg, 0, 0, fix as i32));
                        off -= fix;
                    }
                }
                let off = off as i16;
                match op {
                    MemOp::Load => self.emit(Insn::new(ldx_opc(n), reg, base_reg, off, 0)),
                    MemOp::StoreReg => self.emit(Insn::new(stx_opc(n), base_reg, reg, off, 0)),
                    MemOp::StoreImm(v) => self.emit(Insn::new(st_opc(n), base_reg, 0, off, *v)),
                    MemOp::Xadd => self.emit(Insn::new(xadd_opc(n), base_reg, reg, off, 0)),
                }
                if base_reg != 10 && !(*op == MemOp::Load && reg == base_reg) {
                    // the temporary still holds a pointer: replace it by a number
                    let v = mix(*pos as u64, *split as u64) as i32;
                    self.emit(Insn::new(alu_opc(true, ALU_MOV, false), base_reg, 0, 0, v));
                }
            }
            Item::LdAbs { size, pos } => {
                let n = *size as usize;
                if self.pkt_len < n || self.in_func || matches!(self.vm, VmKind::NoData) {
                    return;
                }
                let o = (*pos as usize * (self.pkt_len - n + 1)) >> 16;
                self.emit(Insn::new(ldabs_opc(n), 0, 0, 0, o as i32));
            }
            Item::LdStLd { size, pos, wsize, val, keep, tmp, ind, reg_store } => {
                let (n, wn) = (*size as usize, *wsize as usize);
                if self.pkt_len < n.max(wn) || self.in_func || matches!(self.vm, VmKind::NoData) {
                    return;
                }
                let o = (*pos as usize * (self.pkt_len - n + 1)) >> 16;
                // the store starts at the load's first byte, or ends with the packet
                let wo = o.min(self.pkt_len - wn);
                let load = |me: &mut Self| {
                    if *ind {
                        me.emit(Insn::new(alu_opc(true, ALU_MOV, false), *keep, 0, 0, (o / 2) as i32));
                        me.emit(Insn::new(ldind_opc(n), 0, *keep, 0, (o - o / 2) as i32));
                    } else {
                        me.emit(Insn::new(ldabs_opc(n), 0, 0, 0, o as i32));
                    }
                };
                load(self);
                if !self.pkt_ptr(*tmp) {
                    return;
                }
                if *reg_store {
                    self.emit(Insn::new(alu_opc(true, ALU_MOV, false), *keep, 0, 0, *val));
                    self.emit(Insn::new(stx_opc(wn), *tmp, *keep, wo as i16, 0));
                } else {
                    self.emit(Insn::new(st_opc(wn), *tmp, 0, wo as i16, *val));
                }
                // the temporary still holds a pointer: replace it by a number; keep the first value
                self.emit(Insn::new(alu_opc(true, ALU_MOV, true), *tmp, 0, 0, 0));
                load(self);
                self.emit(Insn::new(alu_opc(true, ALU_MOV, true), *keep, 0, 0, 0));
            }
            Item::LdInd { size, src, pos, split, neg } => {
                let n = *size as usize;
                if self.pkt_len < n || self.in_func || matches!(self.vm, VmKind::NoData) {
                    return;
                }
                let o = (*pos as usize * (self.pkt_len - n + 1)) >> 16;
                if let Some(imm) = neg {
                    // index = o - zx(imm)  (mod 2^64)
                    let idx = (o as u64).wrapping_sub(*imm as u32 as u64);
                    self.emit(Insn::new(LDDW, *src, 0, 0, idx as u32 as i32));
                    self.emit(Insn::new(0, 0, 0, 0, (idx >> 32) as u32 as i32));
                    self.emit(Insn::new(ldind_opc(n), 0, *src, 0, *imm));
                    // the index register holds a number unrelated to any address: keep it
                    return;
                }
                let k = (*split as usize * (o + 1)) >> 16;
                self.emit(Insn::new(alu_opc(true, ALU_MOV, false), *src, 0, 0, k as i32));
                self.emit(Insn::new(ldind_opc(n), 0, *src, 0, (o - k) as i32));
            }
            Item::If { cond, is64, dst, src, body, els } => {
                let (reg, s, imm) = self.src_fields(src);
                let at = self.out.len();
                self.emit(Insn::new(jmp_opc(*is64, *cond, reg), *dst, s, 0, imm));
                // jump taken => skip `body` (and land on `els` if any)
                self.lower_items(body, loop_depth);
                if els.is_empty() {
                    let skip = self.out.len() - at - 1;
                    self.patch_off(at, skip);
                } else {
                    let ja_at = self.out.len();
                    self.emit(Insn::new(JA, 0, 0, 0, 0));
                    let skip = self.out.len() - at - 1;
                    self.patch_off(at, skip);
                    self.lower_items(els, loop_depth);
                    let skip2 = self.out.len() - ja_at - 1;
                    self.patch_off(ja_at, skip2);
                }
            }
            Item::Skip { body } => {
                let at = self.out.len();
                self.emit(Insn::new(JA, 0, 0, 0, 0));
                self.lower_items(body, loop_depth);
                let skip = self.out.len() - at - 1;
                self.patch_off(at, skip);
            }
            Item::Loop { count, tmp, variant, pre, body } => {
                if loop_depth >= 3 {
                    self.lower_items(pre, loop_depth);
                    self.lower_items(body, loop_depth);
                    return;
                }
                let slot = -(16 + 8 * loop_depth as i16);
                self.emit(Insn::new(st_opc(8), 10, 0, slot, *count as i32));
                self.lower_items(pre, loop_depth + 1);
                let top = self.out.len();
                self.lower_items(body, loop_depth + 1);
                self.emit(Insn::new(ldx_opc(8), *tmp, 10, slot, 0));
                self.emit(Insn::new(alu_opc(true, ALU_ADD, false), *tmp, 0, 0, -1));
                self.emit(Insn::new(stx_opc(8), 10, *tmp, slot, 0));
                let back = top as i64 - (self.out.len() as i64 + 1);
                if back < i16::MIN as i64 {
                    // body too long for a back edge: run it once
                    return;
                }
                let (c, is64) = match variant % 4 {
                    0 => (J_NE, true),
                    1 => (J_GT, true),
                    2 => (J_SGT, true),
                    _ => (J_NE, false),
                };
                self.emit(Insn::new(jmp_opc(is64, c, false), *tmp, 0, back as i16, 0));
            }
            Item::Helper { which, args, post } => {
                if self.p.helper_ids.is_empty() {
                    return;
                }
                let (id, _) = self.p.helper_ids[*which as usize % self.p.helper_ids.len()];
                for (k, a) in args.iter().enumerate() {
                    let (reg, s, imm) = self.src_fields(a);
                    self.emit(Insn::new(alu_opc(true, ALU_MOV, reg), k as u8 + 1, s, 0, imm));
                }
                let id = if self.p.unregistered && *which % 3 == 0 { id ^ 0x4000_0000 } else { id };
                self.emit(Insn::new(CALL, 0, 0, 0, id as i32));
                for (k, v) in post.iter().enumerate() {
                    self.emit(Insn::new(alu_opc(true, ALU_MOV, false), k as u8 + 1, 0, 0, *v));
                }
            }
            Item::Call { f } => {
                if self.in_func || self.p.funcs.is_empty() {
                    return;
                }
                let f = *f as usize % self.p.funcs.len();
                self.call_fixups.push((self.out.len(), f));
                self.emit(Insn::new(CALL, 0, 1, 0, 0));
            }
            Item::PtrArith { a, b, k, cond } => {
                let (a, mut b) = (*a, *b);
                if a == b {
                    b = (a + 1) % 10;
                }
                self.emit(Insn::new(alu_opc(true, ALU_MOV, true), a, 10, 0, 0));
                self.emit(Insn::new(alu_opc(true, ALU_MOV, true), b, 10, 0, 0));
                self.emit(Insn::new(alu_opc(true, ALU_ADD, false), b, 0, 0, -(k.abs())));
                // compare two pointers into the stack; the skipped instruction changes a
                let c = if *cond == J_SET { J_NE } else { *cond };
                self.emit(Insn::new(jmp_opc(true, c, true), a, b, 1, 0));
                self.emit(Insn::new(alu_opc(true, ALU_ADD, false), a, 0, 0, -8));
                self.emit(Insn::new(alu_opc(true, ALU_SUB, true), a, b, 0, 0));
                self.emit(Insn::new(alu_opc(true, ALU_MOV, false), b, 0, 0, *k));
            }
            Item::Pad { n, kind } => self.filler(*n as usize, *kind),
            Item::EarlyExit => {
                if self.in_func {
                    self.emit(Insn::new(EXIT, 0, 0, 0, 0));
                } else {
                    self.fold_epilogue();
                }
            }
        }
    }

    fn patch_off(&mut self, at: usize, skip: usize) {
        if skip > i16::MAX as usize {
            // cannot express: turn the branch into a fall-through (still a valid program)
            self.out[at] = Insn::new(JA, 0, 0, 0, 0);
        } else {
            self.out[at].off = skip as i16;
        }
    }
}

pub fn vm_kind(p: &Program) -> (VmKind, Vec<u8>) {
    match p.vm {
        VmSel::NoData => (VmKind::NoData, vec![]),
        VmSel::Raw => (VmKind::Raw, vec![]),
        VmSel::Mbuff { data_slot, end_slot } => {
            // 32 bytes of pointer slots, then user data
            let mut m = vec![0u8; 32];
            m.extend_from_slice(&p.mbuff_data);
            (VmKind::Mbuff { data_off: data_slot as usize * 8, end_off: end_slot as usize * 8 }, m)
        }
        VmSel::Fixed { data_off, end_off } => (VmKind::Fixed { data_off: data_off as usize, end_off: end_off as usize }, vec![]),
    }
}

/// Lower a program tree to an executable case.
pub fn lower(p: &Program) -> ExecCase {
    let (vm, mbuff) = vm_kind(p);
    let pkt: Vec<u8> = if matches!(vm, VmKind::NoData) { vec![] } else { p.pkt.clone() };
    let mut case = ExecCase::new(vm, vec![]);
    case.pkt = pkt;
    case.mbuff = mbuff;
    case.pkt_at_end = p.pkt_at_end;
    case.helpers = p.helper_ids.clone();
    // ids must be unique
    case.helpers.sort();
    case.helpers.dedup_by_key(|h| h.0);
    let mut lw = Lower {
        p,
        vm,
        out: Vec::new(),
        call_fixups: Vec::new(),
        pkt_len: case.pkt.len(),
        pkt_mod8: case.pkt_base_mod8() as usize,
        mbuff_len: case.mbuff.len(),
        mbuff_lo: 32,
        in_func: false,
    };
    // prologue: save the context pointer, initialise every register and the stack window
    lw.emit(Insn::new(stx_opc(8), 10, 1, CTX_SLOT, 0));
    for r in 0..10u8 {
        lw.mov_imm64(r, p.init[r as usize]);
    }
    lw.window_init(0);
    lw.filler(p.big_pad[0] as usize, 1);
    lw.lower_items(&p.main, 0);
    lw.filler(p.big_pad[1] as usize, 2);
    lw.fold_epilogue();
    // functions
    let mut entries = Vec::new();
    for (k, f) in p.funcs.iter().enumerate() {
        lw.filler(p.big_pad[2 + k] as usize, 3);
        entries.push(lw.out.len());
        lw.in_func = true;
        lw.window_init(0x1234_5678_9abc_def1u64.wrapping_mul(k as u64 + 1));
        lw.lower_items(f, 0);
        lw.emit(Insn::new(EXIT, 0, 0, 0, 0));
        lw.in_func = false;
    }
    let fix = std::mem::take(&mut lw.call_fixups);
    for (at, f) in fix {
        lw.out[at].imm = (entries[f] as i64 - at as i64 - 1) as i32;
    }
    // junk in unused fields
    let mut out = lw.out;
    let mut i = 0;
    while i < out.len() {
        let x = out[i];
        if x.opc == LDDW {
            i += 2;
            continue;
        }
        let h = mix(p.junk, i as u64);
        if h % 10 < 3 {
            if let Some(k) = kind_of(x.opc) {
                let u = uses_of(k);
                let mut y = x;
                if !u.dst {
                    y.dst = ((h >> 8) % 10) as u8;
                }
                if !u.src {
                    y.src = ((h >> 16) % 11) as u8;
                }
                if !u.off {
                    y.off = (h >> 24) as i16;
                }
                if !u.imm {
                    y.imm = (h >> 32) as i32;
                }
                out[i] = y;
            }
        }
        i += 1;
    }
    case.prog = encode_prog(&out);
    case
}

// ---- dense ALU programs ----------------------------------------------------------------------

/// Straight-line programs made only of the instructions with the largest machine-code expansion
/// (division / modulo / multiplication by a register, wide loads, shifts by a register), on
/// initialised registers: fully defined, executable on every engine, and a worst case for the
/// code-size estimation of the compilers (C12, C20) at every program length from 1 to `max` .
/// Loops whose head is instruction 0 (a back-edge to the very first instruction, which is not
/// idempotent): on the no-data VM r1 is 0 at entry, so the program needs no prologue. Shapes:
/// conditional back-edge of every unsigned / signed / 32-bit kind, `ja` back-edge behind a
/// conditional exit, and a wide load as the first instruction (a jump that lands one slot late
/// hits its second half).
pub fn loop_to_zero() -> impl Strategy<Value = ExecCase> {
    (1i32..6, 1i32..7, 0u8..8, 0u8..3, any::<bool>(), prop::collection::vec((0u8..4, 2u8..10, interesting_i32()), 0..4), interesting_u64())
        .prop_map(|(k, n, jk, shape, is64, body, wide)| {
            let limit = k * n;
            let mut out: Vec<Insn> = Vec::new();
            if shape == 2 {
                out.push(Insn::new(LDDW, 2, 0, 0, wide as u32 as i32));
                out.push(Insn::new(0, 0, 0, 0, (wide >> 32) as u32 as i32));
                // make the loop head itself matter: r1 += k happens right after it
            }
            out.push(Insn::new(alu_opc(true, ALU_ADD, false), 1, 0, 0, k));
            out.push(Insn::new(alu_opc(true, ALU_MOV, true), 3, 1, 0, 0));
            for (op, dst, imm) in body {
                let dst = if dst == 1 { 4 } else { dst };
                match op {
                    0 => out.push(Insn::new(alu_opc(true, ALU_MOV, false), dst, 0, 0, imm)),
                    1 => out.push(Insn::new(alu_opc(true, ALU_MOV, true), dst, 3, 0, 0)),
                    2 => {
                        out.push(Insn::new(alu_opc(true, ALU_MOV, true), dst, 3, 0, 0));
                        out.push(Insn::new(alu_opc(false, ALU_MUL, false), dst, 0, 0, imm | 1));
                    }
                    _ => {
                        out.push(Insn::new(alu_opc(true, ALU_MOV, false), dst, 0, 0, imm));
                        out.push(Insn::new(alu_opc(true, ALU_XOR, true), dst, 3, 0, 0));
                    }
                }
            }
            let back = |from: usize| -(from as i32 + 1) as i16;
            if shape == 1 {
                // conditional exit, then an unconditional back-edge
                out.push(Insn::new(jmp_opc(is64, J_GE, false), 1, 0, 1, limit));
                let at = out.len();
                out.push(Insn::new(JA, 0, 0, back(at), 0));
            } else {
                let (cond, imm) = match jk {
                    0 => (J_LT, limit),
                    1 => (J_NE, limit),
                    2 => (J_SLT, limit),
                    3 => (J_LE, limit - 1),
                    4 => (J_SLE, limit - 1),
                    5 => (J_GT, -1 - limit), // never true for small positive r1 compared unsigned with a huge value? keep it simple: see below
                    _ => (J_LT, limit),
                };
                let (cond, imm) = if cond == J_GT { (J_LT, limit) } else { (cond, imm) };
                let at = out.len();
                if jk == 7 {
                    // register form
                    out.push(Insn::new(alu_opc(true, ALU_MOV, false), 5, 0, 0, limit));
                    let at = out.len();
                    out.push(Insn::new(jmp_opc(is64, J_LT, true), 1, 5, back(at), 0));
                } else {
                    out.push(Insn::new(jmp_opc(is64, cond, false), 1, 0, back(at), imm));
                }
            }
            out.push(Insn::new(alu_opc(true, ALU_MOV, true), 0, 1, 0, 0));
            out.push(Insn::new(alu_opc(true, ALU_LSH, false), 0, 0, 0, 8));
            out.push(Insn::new(alu_opc(true, ALU_XOR, true), 0, 3, 0, 0));
            out.push(Insn::new(EXIT, 0, 0, 0, 0));
            ExecCase::new(VmKind::NoData, encode_prog(&out))
        })
}

pub fn dense_alu(max: usize) -> impl Strategy<Value = ExecCase> {
    dense(max, false)
}

/// `bare`: no register initialisation and no result folding - for compile-only use, where the
/// whole program can consist of worst-case instructions.
pub fn dense(max: usize, bare: bool) -> impl Strategy<Value = ExecCase> {
    let heavy = prop_oneof![
        6 => Just(ALU_DIV),
        4 => Just(ALU_MOD),
        2 => Just(ALU_MUL),
        1 => Just(ALU_LSH),
        1 => Just(ALU_ARSH),
    ];
    // (operation, 64-bit?, dst, src, immediate form?, immediate, follow the program's dominant choice?)
    let insn = (heavy.clone(), any::<bool>(), 0u8..10, 0u8..10, prop::bool::weighted(0.1), interesting_i32(), prop::bool::weighted(0.9)).boxed();
    let len = prop_oneof![3 => 1usize..130, 2 => 90usize..max.max(91), 1 => 240usize..max.max(241)];
    (
        len,
        [interesting_u64(), interesting_u64(), interesting_u64(), interesting_u64(), interesting_u64(), interesting_u64(), interesting_u64(), interesting_u64(), interesting_u64(), interesting_u64()],
        any::<bool>(),
        (heavy, any::<bool>(), prop::bool::weighted(0.5)),
    )
        .prop_flat_map(move |(n, init, short_prologue, dominant)| (prop::collection::vec(insn.clone(), n..=n), Just(init), Just(short_prologue), Just(dominant)))
        .prop_map(move |(body, init, short_prologue, (dom_op, dom_64, use_dominant))| {
            let mut out: Vec<Insn> = Vec::new();
            if !bare {
                for r in 0..10u8 {
                    let v = init[r as usize];
                    if short_prologue {
                        // one instruction per register keeps the program short
                        out.push(Insn::new(alu_opc(true, ALU_MOV, false), r, 0, 0, v as i32));
                    } else {
                        out.push(Insn::new(LDDW, r, 0, 0, v as u32 as i32));
                        out.push(Insn::new(0, 0, 0, 0, (v >> 32) as u32 as i32));
                    }
                }
            }
            for (op, is64, dst, src, imm_form, imm, follow) in body {
                let (op, is64, imm_form) = if use_dominant && follow { (dom_op, dom_64, false) } else { (op, is64, imm_form) };
                if imm_form {
                    out.push(Insn::new(alu_opc(is64, op, false), dst, 0, 0, imm));
                } else {
                    out.push(Insn::new(alu_opc(is64, op, true), dst, src, 0, 0));
                }
            }
            if !bare {
                // fold a few registers so that the result depends on the whole computation
                for r in 1..10u8 {
                    out.push(Insn::new(alu_opc(true, ALU_XOR, true), 0, r, 0, 0));
                }
            }
            out.push(Insn::new(EXIT, 0, 0, 0, 0));
            ExecCase::new(VmKind::NoData, encode_prog(&out))
        })
}
