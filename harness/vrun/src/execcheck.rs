//! Model run of an ExecCase and comparison of engine results against it (C01, C03, C04, ...).

use crate::engine::Verdict;
use crate::isa;
use crate::model::*;
use crate::runner::*;
use std::collections::HashMap;

pub struct ModelRun {
    pub out: MOut,
    pub trace: Trace,
    pub pkt: Vec<u8>,
    pub mbuff: Vec<u8>,
}

/// Run the reference model on a case. `pkt_addr` is the real address the packet will have (its
/// bytes appear in the user metadata buffer of the Mbuff kind).
pub fn model_run(case: &ExecCase, pkt_addr: u64, quirks: Quirks, max_steps: u64) -> ModelRun {
    let prog = isa::decode_prog(&case.prog);
    let helpers = helper_models(&case.helpers);
    let frames: Option<HashMap<usize, u16>> = case.calc.as_ref().map(|(t, _)| t.iter().cloned().collect());
    let mut regions = vec![
        Region::clean(case.pkt.clone(), case.pkt_base_mod8(), true),
        Region::clean(vec![], 0, true),
        Region::undef(STACK_SIZE, 0),
    ];
    let mut ptrs: Vec<(u8, u64)> = Vec::new();
    let mut r1 = Val::clean(0);
    match case.vm {
        VmKind::NoData => {}
        VmKind::Raw => {
            if !case.pkt.is_empty() {
                r1 = Val::addr(R_PKT, 0);
            }
        }
        VmKind::Mbuff { data_off, end_off } => {
            let mut m = Region::clean(case.mbuff.clone(), case.mbuff_base_mod8(), true);
            for (k, (off, val)) in [(data_off, 0u64), (end_off, case.pkt.len() as u64)].into_iter().enumerate() {
                if off + 8 <= m.data.len() {
                    m.data[off..off + 8].copy_from_slice(&(pkt_addr + val).to_le_bytes());
                    for j in 0..8 {
                        m.sh[off + j] = Sh::Ptr { id: k as u32, k: j as u8 };
                    }
                }
            }
            ptrs.push((R_PKT, 0));
            ptrs.push((R_PKT, case.pkt.len() as u64));
            regions[R_MBUFF as usize] = m;
            r1 = Val::addr(R_MBUFF, 0);
        }
        VmKind::Fixed { data_off, end_off } => {
            let len = data_off.max(end_off) + 8;
            let mut m = Region::clean(vec![0; len], 0, false);
            // the interpreter writes the start pointer first, then the end pointer
            for (k, (off, _)) in [(data_off, 0u64), (end_off, case.pkt.len() as u64)].into_iter().enumerate() {
                for j in 0..8 {
                    m.sh[off + j] = Sh::Ptr { id: k as u32, k: j as u8 };
                }
            }
            ptrs.push((R_PKT, 0));
            ptrs.push((R_PKT, case.pkt.len() as u64));
            regions[R_MBUFF as usize] = m;
            r1 = Val::addr(R_MBUFF, 0);
        }
    }
    let mut reg = [Val::BAD; 11];
    reg[1] = r1;
    reg[10] = Val::addr(R_STACK, STACK_SIZE as u64);
    let mut m = Machine {
        prog: &prog,
        regions,
        ptrs,
        reg,
        helpers: &helpers,
        frames: frames.as_ref(),
        frame_default: case.calc.as_ref().map(|c| c.1).unwrap_or(256),
        quirks,
        max_steps,
        trace: Trace::default(),
    };
    let out = m.run();
    let pkt = m.regions[R_PKT as usize].data.clone();
    let mbuff = if matches!(case.vm, VmKind::Mbuff { .. }) { m.regions[R_MBUFF as usize].data.clone() } else { vec![] };
    ModelRun { out, trace: m.trace, pkt, mbuff }
}

pub fn first_diff(a: &[u8], b: &[u8]) -> Option<usize> {
    a.iter().zip(b.iter()).position(|(x, y)| x != y)
}

fn describe(case: &ExecCase) -> String {
    format!(
        "vm={:?} pkt={} mbuff={} helpers={:?} calc={:?}\n{}",
        case.vm,
        isa::hex(&case.pkt),
        isa::hex(&case.mbuff),
        case.helpers,
        case.calc,
        isa::listing(&case.prog, 80).join("\n")
    )
}

/// Signature fragment for an abnormal outcome.
pub fn outcome_sig(o: &Outcome) -> String {
    match o {
        Outcome::Panic(m) | Outcome::CompilePanic(m) => crate::props::panic_signature(m),
        Outcome::Signal { sig, phase } => format!("signal-{sig}-during-{phase:?}"),
        Outcome::Hang { phase } => format!("hang-during-{phase:?}"),
        Outcome::CompileErr(_) => "compile-error".into(),
        Outcome::VerifierErr(_) => "verifier-error".into(),
        Outcome::Err(_) => "runtime-error".into(),
        Outcome::Ok(_) => "ok".into(),
        Outcome::NotRun => "not-run".into(),
        Outcome::CompiledOnly => "compiled-only".into(),
    }
}

/// C01-style comparison of the interpreter with the model. `quirk` is the model run with the
/// interpreter's known deviation(s) switched on, used only to classify a failure as the known
/// finding I2.
pub fn compare_interp_with_model(case: &ExecCase, m: &ModelRun, quirk: Option<&ModelRun>, r: &EngResult) -> Verdict {
    let known_i2 = |what: &str| -> Option<Verdict> {
        let q = quirk?;
        if !m.trace.i2_trigger {
            return None;
        }
        let same = match (&q.out, &r.outcome) {
            (MOut::Ret(a), Outcome::Ok(b)) => a == b && q.pkt == r.pkt && (q.mbuff.is_empty() || q.mbuff == r.mbuff),
            (MOut::Err(_), Outcome::Err(_)) => true,
            _ => false,
        };
        if same {
            Some(Verdict::fail("I2:jmp64-imm-zero-extended", format!("{what}\n(interpreter agrees with the model only when 64-bit unsigned/equality jump immediates are zero-extended)\n{}", describe(case))))
        } else {
            None
        }
    };
    match (&m.out, &r.outcome) {
        (MOut::Undefined(_), _) | (MOut::StepLimit, _) => Verdict::Discard("model-undefined"),
        (_, Outcome::Hang { .. }) => Verdict::Inconclusive("interpreter run hit the 180 s watchdog".into()),
        (_, Outcome::VerifierErr(_)) => Verdict::Discard("not-accepted"),
        (_, Outcome::Panic(msg)) => Verdict::fail(format!("interp:{}", crate::props::panic_signature(msg)), format!("interpreter panicked: {msg}\nmodel: {:?}\n{}", m.out, describe(case))),
        (_, Outcome::Signal { sig, .. }) => Verdict::fail(format!("interp:signal-{sig}"), format!("interpreter died with signal {sig}\nmodel: {:?}\n{}", m.out, describe(case))),
        (MOut::Ret(want), Outcome::Ok(got)) => {
            if want != got {
                let what = format!("interpreter returned {got:#x}, ISA semantics give {want:#x}");
                return known_i2(&what).unwrap_or_else(|| Verdict::fail("interp:wrong-value", format!("{what}\n{}", describe(case))));
            }
            if let Some(i) = first_diff(&m.pkt, &r.pkt) {
                let what = format!("packet byte {i}: interpreter left {:#x}, ISA semantics give {:#x}", r.pkt[i], m.pkt[i]);
                return known_i2(&what).unwrap_or_else(|| Verdict::fail("interp:wrong-packet-bytes", format!("{what}\n{}", describe(case))));
            }
            if !m.mbuff.is_empty() {
                if let Some(i) = first_diff(&m.mbuff, &r.mbuff) {
                    let what = format!("metadata byte {i}: interpreter left {:#x}, ISA semantics give {:#x}", r.mbuff[i], m.mbuff[i]);
                    return known_i2(&what).unwrap_or_else(|| Verdict::fail("interp:wrong-mbuff-bytes", format!("{what}\n{}", describe(case))));
                }
            }
            Verdict::Pass
        }
        (MOut::Ret(want), Outcome::Err(e)) => {
            let budget = e.contains("instruction budget exhausted");
            let what = format!("interpreter returned an error ({}) where ISA semantics give {want:#x} after {} steps", e.lines().next().unwrap_or(""), m.trace.steps);
            known_i2(&what).unwrap_or_else(|| Verdict::fail(if budget { "interp:runs-away" } else { "interp:spurious-error" }, format!("{what}\n{}", describe(case))))
        }
        // The fixed-metadata VM owns a heap buffer that is a legitimate region for the program and
        // often sits next to the (heap-allocated) stack: an access the model places outside every
        // region it knows may land inside that buffer, depending on the allocator. Not judged.
        (MOut::Err(crate::model::MErr::OutOfBounds), Outcome::Ok(_)) if matches!(case.vm, VmKind::Fixed { .. }) => Verdict::Discard("fixed-vm:out-of-bounds-access-may-hit-the-internal-buffer"),
        (MOut::Err(kind), Outcome::Ok(got)) => {
            let what = format!("interpreter returned {got:#x} where the semantics give an error ({kind:?})");
            known_i2(&what).unwrap_or_else(|| Verdict::fail(format!("interp:missing-error-{kind:?}"), format!("{what}\n{}", describe(case))))
        }
        (MOut::Err(_), Outcome::Err(e)) => {
            if e.contains("instruction budget exhausted") {
                let what = "interpreter kept running where the semantics give an error".to_string();
                return known_i2(&what).unwrap_or_else(|| Verdict::fail("interp:runs-away", format!("{what}\n{}", describe(case))));
            }
            Verdict::Pass
        }
        (_, other) => Verdict::fail(format!("interp:{}", outcome_sig(other)), format!("unexpected interpreter outcome {other:?}\n{}", describe(case))),
    }
}

/// C03/C04-style differential: compiled engine vs interpreter, under the premise checked by the
/// model (terminates, defined, in bounds).
pub fn compare_compiled_with_interp(case: &ExecCase, m: &ModelRun, interp: &EngResult, comp: &EngResult) -> Verdict {
    let eng = comp.engine.name();
    // premise
    let want = match (&m.out, &interp.outcome) {
        (MOut::Ret(_), Outcome::Ok(v)) => *v,
        (MOut::Ret(_), Outcome::Hang { .. }) => return Verdict::Inconclusive("interpreter run hit the watchdog".into()),
        (MOut::Ret(_), _) => return Verdict::Discard("interpreter-did-not-return-a-value"),
        _ => return Verdict::Discard("model-undefined-or-error"),
    };
    // known finding I2: the interpreter itself deviates from the ISA on this run
    let i2 = |what: String| -> Verdict {
        let model_ok = matches!((&m.out, &comp.outcome), (MOut::Ret(a), Outcome::Ok(b)) if a == b) && m.pkt == comp.pkt;
        if m.trace.i2_trigger && model_ok {
            Verdict::fail("I2:jmp64-imm-zero-extended", format!("{what}\n(the {eng} result equals the ISA semantics; the interpreter zero-extends the immediate of a 64-bit unsigned/equality jump)\n{}", describe(case)))
        } else {
            Verdict::fail(format!("{eng}:differs-from-interpreter"), format!("{what}\nmodel: {:?}\n{}", m.out, describe(case)))
        }
    };
    match &comp.outcome {
        Outcome::Ok(got) => {
            if let Some(h) = comp.hlog.iter().find(|h| h.align != 0) {
                // C08: helpers must be entered with the stack aligned as the C ABI requires
                return Verdict::fail(
                    format!("{eng}:stack-misaligned-at-helper-call"),
                    format!("{eng}: a helper was entered with (rsp+8)%16 = {} (per call: {:?})\n{}", h.align, comp.hlog.iter().map(|h| h.align).collect::<Vec<_>>(), describe(case)),
                );
            }
            if *got != want {
                return i2(format!("{eng} returned {got:#x}, interpreter returned {want:#x}"));
            }
            if let Some(i) = first_diff(&interp.pkt, &comp.pkt) {
                return i2(format!("packet byte {i}: {eng} left {:#x}, interpreter left {:#x}", comp.pkt[i], interp.pkt[i]));
            }
            if let Some(i) = first_diff(&interp.mbuff, &comp.mbuff) {
                return i2(format!("metadata byte {i}: {eng} left {:#x}, interpreter left {:#x}", comp.mbuff[i], interp.mbuff[i]));
            }
            Verdict::Pass
        }
        Outcome::Hang { phase } => {
            // a compiled program that spins where the interpreter returned is a wrong jump, but a
            // watchdog is not an oracle: report as inconclusive
            Verdict::Inconclusive(format!("{eng} hit the 180 s watchdog during {phase:?}"))
        }
        other => Verdict::fail(
            format!("{eng}:{}", outcome_sig(other)),
            format!("{eng}: {} where the interpreter returned {want:#x}\n{}", other.short(), describe(case)),
        ),
    }
}
