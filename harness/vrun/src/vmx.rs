//! One type over the four VM kinds, so that sequences of API calls can be driven uniformly
//! (C09, C10, C18).

use crate::runner::{Engine, VmKind};

pub enum AnyVm {
    NoData(rbpf::EbpfVmNoData<'static>),
    Raw(rbpf::EbpfVmRaw<'static>),
    Mbuff(rbpf::EbpfVmMbuff<'static>),
    Fixed(rbpf::EbpfVmFixedMbuff<'static>),
}

fn es<T>(r: Result<T, std::io::Error>) -> Result<T, String> {
    r.map_err(|e| e.to_string())
}

macro_rules! each {
    ($self:expr, $vm:ident => $body:expr) => {
        match $self {
            AnyVm::NoData($vm) => $body,
            AnyVm::Raw($vm) => $body,
            AnyVm::Mbuff($vm) => $body,
            AnyVm::Fixed($vm) => $body,
        }
    };
}

impl AnyVm {
    pub fn new(kind: VmKind, prog: Option<&'static [u8]>) -> Result<AnyVm, String> {
        Ok(match kind {
            VmKind::NoData => AnyVm::NoData(es(rbpf::EbpfVmNoData::new(prog))?),
            VmKind::Raw => AnyVm::Raw(es(rbpf::EbpfVmRaw::new(prog))?),
            VmKind::Mbuff { .. } => AnyVm::Mbuff(es(rbpf::EbpfVmMbuff::new(prog))?),
            VmKind::Fixed { data_off, end_off } => AnyVm::Fixed(es(rbpf::EbpfVmFixedMbuff::new(prog, data_off, end_off))?),
        })
    }

    /// `offsets` is only used by the fixed-metadata VM (which takes new offsets with a program).
    pub fn set_program(&mut self, prog: &'static [u8], offsets: (usize, usize)) -> Result<(), String> {
        match self {
            AnyVm::NoData(vm) => es(vm.set_program(prog)),
            AnyVm::Raw(vm) => es(vm.set_program(prog)),
            AnyVm::Mbuff(vm) => es(vm.set_program(prog)),
            AnyVm::Fixed(vm) => es(vm.set_program(prog, offsets.0, offsets.1)),
        }
    }

    pub fn set_verifier(&mut self, v: rbpf::Verifier) -> Result<(), String> {
        each!(self, vm => es(vm.set_verifier(v)))
    }

    pub fn register_helper(&mut self, id: u32, f: rbpf::Helper) -> Result<(), String> {
        each!(self, vm => es(vm.register_helper(id, f)))
    }

    pub fn set_stack_usage_calculator(&mut self, c: rbpf::StackUsageCalculator, data: Box<dyn std::any::Any>) -> Result<(), String> {
        each!(self, vm => es(vm.set_stack_usage_calculator(c, data)))
    }

    pub fn register_allowed_memory(&mut self, r: std::ops::Range<u64>) {
        each!(self, vm => vm.register_allowed_memory(r))
    }

    pub fn jit_compile(&mut self) -> Result<(), String> {
        each!(self, vm => es(vm.jit_compile()))
    }

    pub fn cranelift_compile(&mut self) -> Result<(), String> {
        each!(self, vm => es(vm.cranelift_compile()))
    }

    pub fn jit_code_hash(&self) -> Option<u64> {
        each!(self, vm => vm.verif_jit_code().map(crate::engine::fnv))
    }

    /// Execute on the given engine. `mbuff` is only used by the metadata VM.
    pub fn exec(&mut self, engine: Engine, pkt: &'static mut [u8], mbuff: &'static mut [u8]) -> Result<u64, String> {
        unsafe {
            match (self, engine) {
                (AnyVm::NoData(vm), Engine::Interp) => es(vm.execute_program()),
                (AnyVm::NoData(vm), Engine::Jit) => es(vm.execute_program_jit()),
                (AnyVm::NoData(vm), Engine::Cranelift) => es(vm.execute_program_cranelift()),
                (AnyVm::Raw(vm), Engine::Interp) => es(vm.execute_program(pkt)),
                (AnyVm::Raw(vm), Engine::Jit) => es(vm.execute_program_jit(pkt)),
                (AnyVm::Raw(vm), Engine::Cranelift) => es(vm.execute_program_cranelift(pkt)),
                (AnyVm::Mbuff(vm), Engine::Interp) => es(vm.execute_program(pkt, mbuff)),
                (AnyVm::Mbuff(vm), Engine::Jit) => es(vm.execute_program_jit(pkt, mbuff)),
                (AnyVm::Mbuff(vm), Engine::Cranelift) => es(vm.execute_program_cranelift(pkt, mbuff)),
                (AnyVm::Fixed(vm), Engine::Interp) => es(vm.execute_program(pkt)),
                (AnyVm::Fixed(vm), Engine::Jit) => es(vm.execute_program_jit(pkt)),
                (AnyVm::Fixed(vm), Engine::Cranelift) => es(vm.execute_program_cranelift(pkt)),
            }
        }
    }
}
