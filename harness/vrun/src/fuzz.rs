//! Coverage-guided campaigns (libFuzzer through cargo-fuzz) for the thorough tier of the byte /
//! text level properties. The semantic oracle lives inside each target (fuzzroot/fuzz/fuzz_targets);
//! a crash artifact becomes a replay file that re-runs the target binary on exactly that input.

use crate::engine::*;
use proptest::strategy::{Strategy, ValueTree};
use proptest::test_runner::{Config, RngAlgorithm, TestRng, TestRunner};
use serde_json::{json, Value};
use std::path::PathBuf;
use std::process::Command;

pub struct Campaign {
    pub target: &'static str,
    pub runs: u64,
    pub max_len: u32,
    pub max_seconds: u64,
}

pub fn campaign_for(prop: &str) -> Option<Campaign> {
    Some(match prop {
        "C05" => Campaign { target: "fuzz_verify_run", runs: 6_000_000, max_len: 400, max_seconds: 600 },
        "C06" => Campaign { target: "fuzz_verifier", runs: 10_000_000, max_len: 400, max_seconds: 600 },
        "C12" => Campaign { target: "fuzz_compile", runs: 600_000, max_len: 400, max_seconds: 600 },
        "C14" => Campaign { target: "fuzz_asm", runs: 5_000_000, max_len: 300, max_seconds: 600 },
        "C15" => Campaign { target: "fuzz_disasm", runs: 600_000, max_len: 320, max_seconds: 600 },
        "C16" => Campaign { target: "fuzz_disasm", runs: 600_000, max_len: 160, max_seconds: 600 },
        _ => return None,
    })
}

fn fuzz_root() -> PathBuf {
    verif_root().join("fuzzroot")
}

fn target_binary(target: &str) -> PathBuf {
    fuzz_root().join("fuzz/target/x86_64-unknown-linux-gnu/release").join(target)
}

pub fn build() -> Result<(), String> {
    let out = Command::new("cargo")
        .args(["+nightly", "fuzz", "build"])
        .current_dir(fuzz_root())
        .env("CARGO_NET_OFFLINE", "true")
        .output()
        .map_err(|e| format!("cannot run cargo fuzz: {e}"))?;
    if out.status.success() {
        Ok(())
    } else {
        Err(format!("cargo +nightly fuzz build failed: {}", String::from_utf8_lossy(&out.stderr).lines().rev().take(6).collect::<Vec<_>>().join(" | ")))
    }
}

fn sample<S: Strategy>(s: &S, runner: &mut TestRunner) -> S::Value {
    s.new_tree(runner).expect("strategy").current()
}

/// A few hundred generator outputs as the starting corpus (libFuzzer ramps up slowly from nothing).
fn seed_corpus(target: &str, dir: &std::path::Path, seed: u64) -> usize {
    let mut sb = [0u8; 32];
    let mut s = splitmix(seed ^ fnv_str(target));
    for c in sb.chunks_mut(8) {
        s = splitmix(s);
        c.copy_from_slice(&s.to_le_bytes());
    }
    let mut tr = TestRunner::new_with_rng(Config::default(), TestRng::from_seed(RngAlgorithm::ChaCha, &sb));
    let mut n = 0;
    let mut put = |bytes: Vec<u8>| {
        if !bytes.is_empty() && bytes.len() <= 400 {
            let _ = std::fs::write(dir.join(format!("seed-{n:04}")), bytes);
            n += 1;
        }
    };
    match target {
        "fuzz_asm" => {
            let texts = crate::asmref::program(4);
            let soup = crate::props::c14::token_soup_strategy();
            for _ in 0..150 {
                put(crate::asmref::render(&sample(&texts, &mut tr)).into_bytes());
                put(sample(&soup, &mut tr).into_bytes());
            }
        }
        "fuzz_disasm" => {
            let st = crate::props::c15::stream();
            for _ in 0..200 {
                let (s, canon) = sample(&st, &mut tr);
                put(crate::props::c15::lower(&s, canon));
            }
        }
        _ => {
            let sp = crate::soup::soup(24);
            for k in 0..300 {
                let mut b = crate::soup::lower(&sample(&sp, &mut tr));
                match target {
                    "fuzz_verify_run" => {
                        let mut v = vec![(k % 48) as u8, (k % 3) as u8, (k % 8) as u8];
                        v.append(&mut b);
                        put(v);
                    }
                    "fuzz_compile" => {
                        let mut v = vec![(k % 2) as u8];
                        v.append(&mut b);
                        put(v);
                    }
                    _ => put(b),
                }
            }
        }
    }
    n
}

/// Run the campaign of a property (thorough tier). Violations are recorded into `stats`.
pub fn run_campaign(prop: &'static str, seed: u64, stats: &mut Stats) {
    let Some(c) = campaign_for(prop) else { return };
    if let Err(e) = build() {
        stats.inconclusive.push(e);
        return;
    }
    let dir = scratch_dir().join(format!("fuzz-{}-{}-{}", c.target, prop, std::process::id()));
    let _ = std::fs::remove_dir_all(&dir);
    let corpus = dir.join("corpus");
    let artifacts = dir.join("artifacts");
    let _ = std::fs::create_dir_all(&corpus);
    let _ = std::fs::create_dir_all(&artifacts);
    let nseeds = seed_corpus(c.target, &corpus, seed);
    let lf_seed = (splitmix(seed ^ fnv_str(prop)) % 0xffff_fffe) + 1; // 0 would mean "random"
    let out = Command::new(target_binary(c.target))
        .arg(&corpus)
        .arg(format!("-artifact_prefix={}/", artifacts.display()))
        .arg(format!("-runs={}", c.runs))
        .arg(format!("-seed={lf_seed}"))
        .arg(format!("-max_len={}", c.max_len))
        .arg(format!("-max_total_time={}", c.max_seconds))
        .args(["-len_control=0", "-print_final_stats=1", "-timeout=60", "-rss_limit_mb=4096"])
        .output();
    let out = match out {
        Ok(o) => o,
        Err(e) => {
            stats.inconclusive.push(format!("cannot run {}: {e}", c.target));
            return;
        }
    };
    let log = String::from_utf8_lossy(&out.stderr).to_string();
    let stat = |key: &str| -> u64 { log.lines().find_map(|l| l.strip_prefix(key).and_then(|v| v.trim().parse::<u64>().ok())).unwrap_or(0) };
    let runs = stat("stat::number_of_executed_units:");
    let cov = log.lines().rev().find_map(|l| l.split("cov: ").nth(1).and_then(|r| r.split_whitespace().next()).and_then(|v| v.parse::<u64>().ok())).unwrap_or(0);
    stats.extra.insert("libfuzzer_target".into(), json!(c.target));
    stats.extra.insert("libfuzzer_runs".into(), json!(runs));
    stats.extra.insert("libfuzzer_seed_corpus_files".into(), json!(nseeds));
    stats.extra.insert("libfuzzer_final_coverage_counters".into(), json!(cov));
    stats.extra.insert("libfuzzer_seed".into(), json!(lf_seed));
    stats.evaluations += runs;
    *stats.classes.entry(format!("libfuzzer:{}", c.target)).or_insert(0) += runs;
    if !out.status.success() {
        // crash, timeout or OOM artifact
        let art = std::fs::read_dir(&artifacts).ok().and_then(|rd| rd.filter_map(|e| e.ok()).map(|e| e.path()).next());
        match art {
            Some(path) => {
                let name = path.file_name().and_then(|s| s.to_str()).unwrap_or("").to_string();
                let bytes = std::fs::read(&path).unwrap_or_default();
                // the sanitizer runtime itself could not get memory from the system (a loaded
                // machine): a resource failure of the campaign, not a finding about the crate
                let resource = log.contains("AddressSanitizer: out of memory") || log.contains("Failed to mmap") || log.contains("failed to allocate") && log.contains("error code: 12");
                // the saved input is the reproducible unit: it must fail again in a fresh process
                let reproduces = || {
                    let body = json!({"target": c.target, "input_hex": crate::isa::hex(&bytes)});
                    matches!(replay(&body), Verdict::Fail { .. })
                };
                if name.starts_with("timeout-") || name.starts_with("oom-") || name.starts_with("slow-unit-") {
                    stats.inconclusive.push(format!("libFuzzer {} reported {name} (resource limit, not a violation)", c.target));
                } else if resource {
                    stats.inconclusive.push(format!("libFuzzer {}: the sanitizer runtime ran out of memory ({name}; resource failure, not a violation)", c.target));
                } else if !reproduces() {
                    stats.inconclusive.push(format!("libFuzzer {} saved {name}, but the target passes on that input in a fresh process (not reproducible, not reported)", c.target));
                } else {
                    let why: Vec<&str> = log.lines().filter(|l| l.contains("panicked at") || l.contains("ERROR:") || l.contains("SUMMARY")).take(4).collect();
                    let body = json!({
                        "property": prop,
                        "kind": "fuzz",
                        "signature": format!("libfuzzer:{}", c.target),
                        "detail": why.join("\n"),
                        "seed": seed,
                        "case": {"target": c.target, "input_hex": crate::isa::hex(&bytes), "as_text": String::from_utf8_lossy(&bytes)},
                        "expect": "pass",
                    });
                    let rdir = verif_root().join("replays").join(prop);
                    let _ = std::fs::create_dir_all(&rdir);
                    let rp = rdir.join(format!("found-fuzz-{:016x}.json", fnv(&bytes)));
                    let _ = std::fs::write(&rp, serde_json::to_string_pretty(&body).unwrap());
                    stats.violations.push(json!({"signature": format!("libfuzzer:{}", c.target), "detail": why.join("\n"), "replay": rp.to_string_lossy()}));
                }
            }
            None => stats.inconclusive.push(format!("libFuzzer {} exited with {:?} without an artifact: {}", c.target, out.status.code(), log.lines().rev().take(3).collect::<Vec<_>>().join(" | "))),
        }
    }
    let _ = std::fs::remove_dir_all(&dir);
}

/// Replay of a saved libFuzzer input: run the target binary on exactly that input.
pub fn replay(case: &Value) -> Verdict {
    let Some(target) = case["target"].as_str() else { return Verdict::Discard("bad-replay") };
    let bytes = crate::isa::unhex(case["input_hex"].as_str().unwrap_or(""));
    if !target_binary(target).exists() {
        if let Err(e) = build() {
            return Verdict::Inconclusive(e);
        }
    }
    let f = scratch_dir().join(format!("fuzz-replay-{}-{:016x}", std::process::id(), fnv(&bytes)));
    if std::fs::write(&f, &bytes).is_err() {
        return Verdict::Inconclusive("cannot write replay input".into());
    }
    let out = Command::new(target_binary(target)).arg(&f).output();
    let _ = std::fs::remove_file(&f);
    match out {
        Err(e) => Verdict::Inconclusive(format!("cannot run {target}: {e}")),
        Ok(o) if o.status.success() => Verdict::Pass,
        Ok(o) => {
            let log = String::from_utf8_lossy(&o.stderr).to_string();
            let why: Vec<&str> = log.lines().filter(|l| l.contains("panicked at") || l.contains("ERROR:") || l.contains("SUMMARY")).take(4).collect();
            Verdict::fail(format!("libfuzzer:{target}"), why.join("\n"))
        }
    }
}
