//! Independent description of the eBPF instruction set as rbpf documents it: encoding, opcode
//! table, which fields each instruction uses, and the assembler mnemonics. Nothing here is taken
//! from rbpf's own constants or encoders - it is the oracle side.

#[derive(Clone, Copy, Debug, PartialEq, Eq, Hash)]
pub struct Insn {
    pub opc: u8,
    pub dst: u8,
    pub src: u8,
    pub off: i16,
    pub imm: i32,
}

impl Insn {
    pub const fn new(opc: u8, dst: u8, src: u8, off: i16, imm: i32) -> Insn {
        Insn { opc, dst, src, off, imm }
    }
    pub fn encode(&self) -> [u8; 8] {
        ref_encode(self.opc, self.dst, self.src, self.off, self.imm)
    }
}

/// Reference encoder: opcode, then src nibble (high) | dst nibble (low), then the offset and the
/// immediate in little-endian order.
pub fn ref_encode(opc: u8, dst: u8, src: u8, off: i16, imm: i32) -> [u8; 8] {
    let o = off.to_le_bytes();
    let i = imm.to_le_bytes();
    [opc, ((src & 0x0f) << 4) | (dst & 0x0f), o[0], o[1], i[0], i[1], i[2], i[3]]
}

pub fn ref_decode(slot: &[u8]) -> Insn {
    Insn {
        opc: slot[0],
        dst: slot[1] & 0x0f,
        src: slot[1] >> 4,
        off: i16::from_le_bytes([slot[2], slot[3]]),
        imm: i32::from_le_bytes([slot[4], slot[5], slot[6], slot[7]]),
    }
}

pub fn encode_prog(insns: &[Insn]) -> Vec<u8> {
    let mut v = Vec::with_capacity(insns.len() * 8);
    for i in insns {
        v.extend_from_slice(&i.encode());
    }
    v
}

pub fn decode_prog(bytes: &[u8]) -> Vec<Insn> {
    bytes.chunks_exact(8).map(ref_decode).collect()
}

// ---- classes -------------------------------------------------------------------------------

pub const CLS_LD: u8 = 0;
pub const CLS_LDX: u8 = 1;
pub const CLS_ST: u8 = 2;
pub const CLS_STX: u8 = 3;
pub const CLS_ALU: u8 = 4;
pub const CLS_JMP: u8 = 5;
pub const CLS_JMP32: u8 = 6;
pub const CLS_ALU64: u8 = 7;

pub const LDDW: u8 = 0x18;
pub const CALL: u8 = 0x85;
pub const TAIL_CALL: u8 = 0x8d;
pub const EXIT: u8 = 0x95;
pub const JA: u8 = 0x05;
pub const LE: u8 = 0xd4;
pub const BE: u8 = 0xdc;
pub const XADD_W: u8 = 0xc3;
pub const XADD_DW: u8 = 0xdb;
pub const NEG32: u8 = 0x84;
pub const NEG64: u8 = 0x87;

/// ALU operation numbers (high nibble of the opcode).
pub const ALU_ADD: u8 = 0x0;
pub const ALU_SUB: u8 = 0x1;
pub const ALU_MUL: u8 = 0x2;
pub const ALU_DIV: u8 = 0x3;
pub const ALU_OR: u8 = 0x4;
pub const ALU_AND: u8 = 0x5;
pub const ALU_LSH: u8 = 0x6;
pub const ALU_RSH: u8 = 0x7;
pub const ALU_NEG: u8 = 0x8;
pub const ALU_MOD: u8 = 0x9;
pub const ALU_XOR: u8 = 0xa;
pub const ALU_MOV: u8 = 0xb;
pub const ALU_ARSH: u8 = 0xc;
pub const ALU_END: u8 = 0xd;

pub const BINARY_ALU_OPS: [u8; 12] = [
    ALU_ADD, ALU_SUB, ALU_MUL, ALU_DIV, ALU_OR, ALU_AND, ALU_LSH, ALU_RSH, ALU_MOD, ALU_XOR,
    ALU_MOV, ALU_ARSH,
];

/// Jump condition numbers (high nibble of the opcode).
pub const J_EQ: u8 = 0x1;
pub const J_GT: u8 = 0x2;
pub const J_GE: u8 = 0x3;
pub const J_SET: u8 = 0x4;
pub const J_NE: u8 = 0x5;
pub const J_SGT: u8 = 0x6;
pub const J_SGE: u8 = 0x7;
pub const J_LT: u8 = 0xa;
pub const J_LE: u8 = 0xb;
pub const J_SLT: u8 = 0xc;
pub const J_SLE: u8 = 0xd;

pub const JUMP_CONDS: [u8; 11] =
    [J_EQ, J_GT, J_GE, J_SET, J_NE, J_SGT, J_SGE, J_LT, J_LE, J_SLT, J_SLE];

/// Size field of load/store opcodes -> number of bytes.
pub fn size_bytes(opc: u8) -> usize {
    match opc & 0x18 {
        0x00 => 4,
        0x08 => 2,
        0x10 => 1,
        _ => 8,
    }
}
pub fn size_bits_field(bytes: usize) -> u8 {
    match bytes {
        4 => 0x00,
        2 => 0x08,
        1 => 0x10,
        8 => 0x18,
        _ => panic!("bad size"),
    }
}

pub fn alu_opc(is64: bool, op: u8, reg: bool) -> u8 {
    (op << 4) | if reg { 0x08 } else { 0 } | if is64 { CLS_ALU64 } else { CLS_ALU }
}
pub fn jmp_opc(is64: bool, cond: u8, reg: bool) -> u8 {
    (cond << 4) | if reg { 0x08 } else { 0 } | if is64 { CLS_JMP } else { CLS_JMP32 }
}
pub fn ldx_opc(bytes: usize) -> u8 {
    0x60 | size_bits_field(bytes) | CLS_LDX
}
pub fn st_opc(bytes: usize) -> u8 {
    0x60 | size_bits_field(bytes) | CLS_ST
}
pub fn stx_opc(bytes: usize) -> u8 {
    0x60 | size_bits_field(bytes) | CLS_STX
}
pub fn ldabs_opc(bytes: usize) -> u8 {
    0x20 | size_bits_field(bytes) | CLS_LD
}
pub fn ldind_opc(bytes: usize) -> u8 {
    0x40 | size_bits_field(bytes) | CLS_LD
}
pub fn xadd_opc(bytes: usize) -> u8 {
    0xc0 | size_bits_field(bytes) | CLS_STX
}

#[derive(Clone, Copy, Debug, PartialEq, Eq, Hash)]
pub enum Kind {
    LdAbs,
    LdInd,
    Lddw,
    Ldx,
    St,
    Stx,
    Xadd,
    AluImm,
    AluReg,
    Neg,
    Endian,
    Ja,
    JmpImm,
    JmpReg,
    Call,
    TailCall,
    Exit,
}

/// Classification of an opcode byte; None = not an opcode rbpf supports.
/// (TAIL_CALL is a *known* opcode that the verifier refuses.)
pub fn kind_of(opc: u8) -> Option<Kind> {
    let cls = opc & 7;
    let hi = opc >> 4;
    let xbit = opc & 0x08 != 0;
    match cls {
        CLS_LD => match opc & 0xe0 {
            0x20 => Some(Kind::LdAbs),
            0x40 => Some(Kind::LdInd),
            0x00 if opc == LDDW => Some(Kind::Lddw),
            _ => None,
        },
        CLS_LDX => (opc & 0xe0 == 0x60).then_some(Kind::Ldx),
        CLS_ST => (opc & 0xe0 == 0x60).then_some(Kind::St),
        CLS_STX => match opc & 0xe0 {
            0x60 => Some(Kind::Stx),
            0xc0 if opc == XADD_W || opc == XADD_DW => Some(Kind::Xadd),
            _ => None,
        },
        CLS_ALU | CLS_ALU64 => match hi {
            ALU_NEG => (!xbit).then_some(Kind::Neg),
            ALU_END => (cls == CLS_ALU).then_some(Kind::Endian),
            0x0..=0xc => Some(if xbit { Kind::AluReg } else { Kind::AluImm }),
            _ => None,
        },
        CLS_JMP | CLS_JMP32 => match hi {
            0x0 => (cls == CLS_JMP && !xbit).then_some(Kind::Ja),
            0x8 => (cls == CLS_JMP).then_some(if xbit { Kind::TailCall } else { Kind::Call }),
            0x9 => (cls == CLS_JMP && !xbit).then_some(Kind::Exit),
            0x1..=0x7 | 0xa..=0xd => Some(if xbit { Kind::JmpReg } else { Kind::JmpImm }),
            _ => None,
        },
        _ => None,
    }
}

/// All opcodes the verifier accepts (TAIL_CALL excluded).
pub fn supported_opcodes() -> Vec<u8> {
    (0u16..256)
        .map(|o| o as u8)
        .filter(|&o| matches!(kind_of(o), Some(k) if k != Kind::TailCall))
        .collect()
}

pub fn is_jump_kind(k: Kind) -> bool {
    matches!(k, Kind::Ja | Kind::JmpImm | Kind::JmpReg)
}

/// Which of (dst, src, off, imm) an instruction uses - for canonicalisation (C16) and for junk
/// filling of unused fields (C01/C03/C04).
#[derive(Clone, Copy, Debug, PartialEq, Eq)]
pub struct Uses {
    pub dst: bool,
    pub src: bool,
    pub off: bool,
    pub imm: bool,
}

pub fn uses_of(k: Kind) -> Uses {
    let u = |dst, src, off, imm| Uses { dst, src, off, imm };
    match k {
        Kind::LdAbs => u(false, false, false, true),
        Kind::LdInd => u(false, true, false, true),
        Kind::Lddw => u(true, false, false, true),
        Kind::Ldx => u(true, true, true, false),
        Kind::St => u(true, false, true, true),
        Kind::Stx => u(true, true, true, false),
        // imm must be zero for the legacy atomic add: it is a "used" (checked) field
        Kind::Xadd => u(true, true, true, true),
        Kind::AluImm => u(true, false, false, true),
        Kind::AluReg => u(true, true, false, false),
        Kind::Neg => u(true, false, false, false),
        Kind::Endian => u(true, false, false, true),
        Kind::Ja => u(false, false, true, false),
        Kind::JmpImm => u(true, false, true, true),
        Kind::JmpReg => u(true, true, true, false),
        // src of a call selects helper (0) / local (1)
        Kind::Call => u(false, true, false, true),
        Kind::TailCall => u(false, false, false, false),
        Kind::Exit => u(false, false, false, false),
    }
}

pub fn canonical(i: Insn) -> Insn {
    match kind_of(i.opc) {
        Some(k) => {
            let u = uses_of(k);
            Insn {
                opc: i.opc,
                dst: if u.dst { i.dst } else { 0 },
                src: if u.src { i.src } else { 0 },
                off: if u.off { i.off } else { 0 },
                imm: if u.imm { i.imm } else { 0 },
            }
        }
        None => i,
    }
}

// ---- mnemonics -----------------------------------------------------------------------------

pub const ALU_NAMES: [(&str, u8); 12] = [
    ("add", ALU_ADD),
    ("sub", ALU_SUB),
    ("mul", ALU_MUL),
    ("div", ALU_DIV),
    ("or", ALU_OR),
    ("and", ALU_AND),
    ("lsh", ALU_LSH),
    ("rsh", ALU_RSH),
    ("mod", ALU_MOD),
    ("xor", ALU_XOR),
    ("mov", ALU_MOV),
    ("arsh", ALU_ARSH),
];

pub const JMP_NAMES: [(&str, u8); 11] = [
    ("jeq", J_EQ),
    ("jgt", J_GT),
    ("jge", J_GE),
    ("jset", J_SET),
    ("jne", J_NE),
    ("jsgt", J_SGT),
    ("jsge", J_SGE),
    ("jlt", J_LT),
    ("jle", J_LE),
    ("jslt", J_SLT),
    ("jsle", J_SLE),
];

pub const SIZE_SUFFIX: [(&str, usize); 4] = [("b", 1), ("h", 2), ("w", 4), ("dw", 8)];

/// Operand shape of a mnemonic in the assembler's syntax.
#[derive(Clone, Copy, Debug, PartialEq, Eq, Hash)]
pub enum Shape {
    /// `op rD, rS` or `op rD, imm`  (base opcode has the K form; reg form sets 0x08)
    AluBinary,
    /// `op rD`
    AluUnary,
    /// `lddw rD, imm64`
    LoadImm,
    /// `ldabsX imm`
    LoadAbs,
    /// `ldindX rS, imm`
    LoadInd,
    /// `ldxX rD, [rS+off]`
    LoadReg,
    /// `stX [rD+off], imm`
    StoreImm,
    /// `stxX [rD+off], rS`
    StoreReg,
    /// `ja off`
    JumpUncond,
    /// `jXX rD, rS|imm, off`
    JumpCond,
    /// `call imm`
    Call,
    /// `callx imm` (src = 1)
    Callx,
    /// `be16 rD` ... (imm = width)
    Endian(i32),
    /// `exit`
    NoOperand,
}

/// The assembler's documented mnemonic table: name -> (shape, base opcode).
pub fn mnemonics() -> Vec<(String, Shape, u8)> {
    let mut v: Vec<(String, Shape, u8)> = Vec::new();
    v.push(("exit".into(), Shape::NoOperand, EXIT));
    v.push(("ja".into(), Shape::JumpUncond, JA));
    v.push(("call".into(), Shape::Call, CALL));
    v.push(("callx".into(), Shape::Callx, CALL));
    v.push(("lddw".into(), Shape::LoadImm, LDDW));
    v.push(("neg".into(), Shape::AluUnary, NEG64));
    v.push(("neg32".into(), Shape::AluUnary, NEG32));
    v.push(("neg64".into(), Shape::AluUnary, NEG64));
    for (n, op) in ALU_NAMES {
        v.push((n.into(), Shape::AluBinary, alu_opc(true, op, false)));
        v.push((format!("{n}32"), Shape::AluBinary, alu_opc(false, op, false)));
        v.push((format!("{n}64"), Shape::AluBinary, alu_opc(true, op, false)));
    }
    for (s, b) in SIZE_SUFFIX {
        v.push((format!("ldabs{s}"), Shape::LoadAbs, ldabs_opc(b)));
        v.push((format!("ldind{s}"), Shape::LoadInd, ldind_opc(b)));
        v.push((format!("ldx{s}"), Shape::LoadReg, ldx_opc(b)));
        v.push((format!("st{s}"), Shape::StoreImm, st_opc(b)));
        v.push((format!("stx{s}"), Shape::StoreReg, stx_opc(b)));
    }
    for (n, c) in JMP_NAMES {
        v.push((n.into(), Shape::JumpCond, jmp_opc(true, c, false)));
        v.push((format!("{n}32"), Shape::JumpCond, jmp_opc(false, c, false)));
    }
    for w in [16, 32, 64] {
        v.push((format!("be{w}"), Shape::Endian(w), BE));
        v.push((format!("le{w}"), Shape::Endian(w), LE));
    }
    v
}

/// Name the disassembler is documented to give an opcode (the canonical mnemonic: 64-bit ALU
/// ops carry the `64` suffix, byte swaps are named without their width).
pub fn disasm_name(i: &Insn) -> Option<String> {
    let k = kind_of(i.opc)?;
    let sz = |opc: u8| SIZE_SUFFIX.iter().find(|(_, b)| *b == size_bytes(opc)).unwrap().0;
    Some(match k {
        Kind::LdAbs => format!("ldabs{}", sz(i.opc)),
        Kind::LdInd => format!("ldind{}", sz(i.opc)),
        Kind::Lddw => "lddw".into(),
        Kind::Ldx => format!("ldx{}", sz(i.opc)),
        Kind::St => format!("st{}", sz(i.opc)),
        Kind::Stx => format!("stx{}", sz(i.opc)),
        Kind::Xadd => format!("stxxadd{}", sz(i.opc)),
        Kind::AluImm | Kind::AluReg => {
            let n = ALU_NAMES.iter().find(|(_, o)| *o == i.opc >> 4).unwrap().0;
            format!("{n}{}", if i.opc & 7 == CLS_ALU64 { "64" } else { "32" })
        }
        Kind::Neg => format!("neg{}", if i.opc & 7 == CLS_ALU64 { "64" } else { "32" }),
        Kind::Endian => (if i.opc == BE { "be" } else { "le" }).into(),
        Kind::Ja => "ja".into(),
        Kind::JmpImm | Kind::JmpReg => {
            let n = JMP_NAMES.iter().find(|(_, c)| *c == i.opc >> 4).unwrap().0;
            format!("{n}{}", if i.opc & 7 == CLS_JMP32 { "32" } else { "" })
        }
        Kind::Call => (if i.src == 1 { "callx" } else { "call" }).into(),
        Kind::TailCall => "tail_call".into(),
        Kind::Exit => "exit".into(),
    })
}

pub fn hex(bytes: &[u8]) -> String {
    let mut s = String::with_capacity(bytes.len() * 2);
    for b in bytes {
        s.push_str(&format!("{b:02x}"));
    }
    s
}

pub fn unhex(s: &str) -> Vec<u8> {
    let s = s.as_bytes();
    let mut v = Vec::with_capacity(s.len() / 2);
    let d = |c: u8| -> u8 {
        match c {
            b'0'..=b'9' => c - b'0',
            b'a'..=b'f' => c - b'a' + 10,
            b'A'..=b'F' => c - b'A' + 10,
            _ => 0,
        }
    };
    for p in s.chunks_exact(2) {
        v.push(d(p[0]) << 4 | d(p[1]));
    }
    v
}

/// Human-readable listing of a program (independent of rbpf's disassembler), for evidence samples.
pub fn listing(bytes: &[u8], max: usize) -> Vec<String> {
    let insns = decode_prog(bytes);
    let mut out = Vec::new();
    let mut i = 0;
    while i < insns.len() && out.len() < max {
        let x = insns[i];
        let idx = i;
        let s = match kind_of(x.opc) {
            None => format!("?{:02x} d{} s{} off{} imm{}", x.opc, x.dst, x.src, x.off, x.imm),
            Some(k) => {
                let n = disasm_name(&x).unwrap();
                match k {
                    Kind::LdAbs => format!("{n} {:#x}", x.imm),
                    Kind::LdInd => format!("{n} r{}, {:#x}", x.src, x.imm),
                    Kind::Lddw => {
                        let hi = insns.get(i + 1).map(|y| y.imm).unwrap_or(0);
                        i += 1;
                        format!("lddw r{}, {:#x}", x.dst, (x.imm as u32 as u64) | ((hi as u32 as u64) << 32))
                    }
                    Kind::Ldx => format!("{n} r{}, [r{}{:+}]", x.dst, x.src, x.off),
                    Kind::St => format!("{n} [r{}{:+}], {}", x.dst, x.off, x.imm),
                    Kind::Stx | Kind::Xadd => format!("{n} [r{}{:+}], r{}", x.dst, x.off, x.src),
                    Kind::AluImm => format!("{n} r{}, {}", x.dst, x.imm),
                    Kind::AluReg => format!("{n} r{}, r{}", x.dst, x.src),
                    Kind::Neg => format!("{n} r{}", x.dst),
                    Kind::Endian => format!("{n}{} r{}", x.imm, x.dst),
                    Kind::Ja => format!("ja {:+}", x.off),
                    Kind::JmpImm => format!("{n} r{}, {}, {:+}", x.dst, x.imm, x.off),
                    Kind::JmpReg => format!("{n} r{}, r{}, {:+}", x.dst, x.src, x.off),
                    Kind::Call => format!("{n} {}", x.imm),
                    Kind::TailCall | Kind::Exit => n,
                }
            }
        };
        out.push(format!("{idx:>3}: {s}"));
        i += 1;
    }
    if i < insns.len() {
        out.push(format!("... ({} instructions in total)", insns.len()));
    }
    out
}
