#!/bin/bash
# Apply every seeded change to /repo in turn, run the quick checks recorded as catching it
# (seeded/<id>/meta.json: caught_by_quick_checks), undo it. One line per change.
cd /verif
for d in seeded/*/; do
  id=$(basename $d)
  [ -f $d/patch.diff ] || continue
  checks=$(python3 -c "import json;print(' '.join(json.load(open('$d/meta.json'))['caught_by_quick_checks']))")
  cd /repo && git apply /verif/$d/patch.diff 2>/dev/null || { echo "$id: patch does not apply"; cd /verif; continue; }
  cd /verif
  res=""
  for c in $checks; do
    out=$(VERIF_SEED=${VERIF_SEED:-1} timeout 1800 ./check $c --tier quick 2>&1); rc=$?
    sig=$(echo "$out" | grep -m1 "signature:" | sed 's/ *signature: //' | cut -c1-70)
    case $rc in 1) v=caught;; 0) v=MISSED;; *) v="rc=$rc";; esac
    res="$res $c:$v($sig)"
    rm -f replays/$c/found-*
  done
  echo "$id:$res"
  cd /repo && git checkout -- . ; cd /verif
done
./check --setup
