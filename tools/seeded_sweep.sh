#!/bin/bash
# Apply every seeded change to /repo in turn, run the quick check of the property it breaks,
# undo it. Prints one line per change: caught (rc=1) / MISSED (rc=0) / other.
cd /verif
for d in seeded/*/; do
  id=$(basename $d)
  prop=${id%%-*}
  cd /repo && git apply /verif/$d/patch.diff 2>/dev/null || { echo "$id: patch does not apply"; cd /verif; continue; }
  cd /verif
  out=$(VERIF_SEED=${VERIF_SEED:-1} timeout 1800 ./check $prop --tier quick 2>&1); rc=$?
  sig=$(echo "$out" | grep -m1 "signature:" | sed 's/ *signature: //' | cut -c1-90)
  case $rc in 1) v=caught;; 0) v=MISSED;; *) v="rc=$rc";; esac
  echo "$id: $v  $sig"
  rm -f replays/$prop/found-*
  cd /repo && git checkout -- . ; cd /verif
done
./check --setup
