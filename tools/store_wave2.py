#!/usr/bin/env python3
"""Store a confirmed later-round seeded change from /tmp/w<N>-<Cxx> (N = 2 by default, env ROUND=3 ...):
   tools/store_wave2.py <Cxx> <caught-by,comma> "<needs>" "<status>" """
import sys, os, json, shutil, re
prop, caught, needs, status = sys.argv[1:5]
rnd = os.environ.get("ROUND", "2")
wt = f"/tmp/w{rnd}-{prop}"
dst = f"/verif/seeded/{prop}-r{rnd}"
os.makedirs(dst, exist_ok=True)
shutil.copy(f"{wt}/m1.diff", f"{dst}/patch.diff")
shutil.copy(f"{wt}/tests/demo_m1.rs", f"{dst}/demo_m1.rs")
open(f"{dst}/NOTES-from-author.md", "w").write(open(f"{wt}/NOTES.md").read())
log = [l.rstrip() for l in open(f"/tmp/confirm-{prop}-r{rnd}.log") if l.strip()]
meta = {
    "id": f"{prop}-r{rnd}",
    "breaks_property": prop,
    "origin": ("eighth round: written by an independent sub-agent that saw only the text of the property (statement, quantifier, anchors) and a scratch worktree of /repo; the brief said nothing about the suite and asked for one plausible maintenance edit that needs something specific to manifest (a multi-step API sequence, an unusual legal input, state left by an earlier execution or Err, two cooperating sites, a particular VM kind or engine combination), preferably not in the most obvious anchor") if rnd == "8" else {"2": "second", "3": "third", "5": "fifth"}.get(rnd, rnd) + " round: written by an independent sub-agent that saw only the text of the property and a scratch worktree of /repo, and was told that an extensive randomized suite already exists and that the change must need a conjunction of specific conditions" + (" (third round: also told which kinds of generators such a suite has - enumeration of single instructions and adjacent pairs, long programs, page-edge programs, priming accesses, API histories, stress runs, Unicode input, both builds)" if rnd == "3" else (" (fifth round: told that about 120 earlier changes were caught and asked to aim at what is likely still untested: API entry points, VM kinds and parameter combinations left out because a similar one is covered; second uses; interactions of features; error paths)" if rnd == "5" else "")),
    "needs_to_manifest": needs,
    "confirmed_by_me": {
        "log": log,
        "commands": [
            f"tools/confirm_seeded.sh /tmp/w{rnd}-{prop} m1 (clean demo; whole suite in both configurations with the change - the only failing tests are the demo's; 560 / 704 tests of the repository pass)" + ("; plus --no-default-features suite (559 pass) and demo for C20" if prop == "C20" else ""),
            f"tools/try_patch.sh seeded/{prop}-r{rnd}/patch.diff {caught.replace(',', ' ')}",
        ],
    },
    "caught_by_quick_checks": [c for c in caught.split(",") if c],
    "status": status,
}
json.dump(meta, open(f"{dst}/meta.json", "w"), indent=1)
print("stored", dst)
