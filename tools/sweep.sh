#!/bin/bash
# Run every quick check with several seeds; print one line per (check, seed).
# usage: tools/sweep.sh "1 2 3" [tier]
cd /verif
./check --setup || exit 3
for seed in ${1:-1 2 3}; do
  for id in $(harness/target/verif/vrun list); do
    out=$(VERIF_SEED=$seed timeout 3600 harness/target/verif/vrun check $id --tier ${2:-quick} 2>&1)
    rc=$?
    echo "seed=$seed rc=$rc $(echo "$out" | tail -1 | cut -c1-200)"
    if [ $rc -ne 0 ]; then echo "$out" | grep -E "VIOLATION|INCONCLUSIVE|signature" | head -5; fi
  done
done
