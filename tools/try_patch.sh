#!/bin/bash
# Apply a patch to /repo, run the given quick checks, revert.  tools/try_patch.sh <diff> <Cxx>...
patch=$1; shift
cd /repo && git apply "$patch" || { echo "patch does not apply to /repo"; exit 2; }
cd /verif
for id in "$@"; do
  out=$(timeout 1800 ./check $id --tier quick 2>&1); rc=$?
  echo "$id rc=$rc $(echo "$out" | grep -E "signature|BUILD-FAILED" | head -2 | tr '\n' ' ' | cut -c1-220)"
  rm -f replays/$id/found-*
done
cd /repo && git checkout -- . && git status --short | head -3
cd /verif && ./check --setup
