#!/usr/bin/env python3
"""Store the two confirmed changes of one property of a two-changes-per-agent round (4: realistic maintenance
defects; 6: one maintenance defect + one usage-pattern defect; env ROUND, default 4) from /tmp/w<ROUND>-<Cxx>:
  tools/store_round4.py <Cxx> "<needs m1>" "<needs m2>" [caught-by-m1] [caught-by-m2] [status-m1] [status-m2]"""
import sys, os, json, shutil
prop, n1, n2 = sys.argv[1:4]
rnd = os.environ.get("ROUND", "4")
c1 = sys.argv[4] if len(sys.argv) > 4 and sys.argv[4] else prop
c2 = sys.argv[5] if len(sys.argv) > 5 and sys.argv[5] else prop
st1 = sys.argv[6] if len(sys.argv) > 6 and sys.argv[6] else "caught at first attempt"
st2 = sys.argv[7] if len(sys.argv) > 7 and sys.argv[7] else "caught at first attempt"
wt = f"/tmp/w{rnd}-{prop}"
ORIGIN = {
    "4": "fourth round: written by an independent sub-agent that saw only the text of the property and a scratch worktree of /repo; the brief asked for two small, realistic maintenance defects (refactoring slip, off-by-one, wrong width or signedness, forgotten case, state not reset) and said nothing about the suite",
    "7": "seventh round (measurement after the suite was frozen): written by an independent sub-agent that saw only the text of the property and a scratch worktree of /repo; the brief asked for two small maintenance defects as different from each other as possible, in mechanisms that are not the most obvious anchors, and said nothing about the suite",
    "9": "ninth round: written by an independent sub-agent that saw only the text of the property (statement, quantifier, anchors) and a scratch worktree of /repo; the brief said nothing about the suite and asked for m1 = two cooperating edits at different sites that each leave the property intact alone and break it together, and m2 = a change that manifests only in a second-or-later use (after an earlier execution / Err / re-compile / reload on the same VM object) or under a precise combination (one VM kind with one engine, one register with one operand size, one position in the program, an exact unusual boundary, a combination of spelling features)",
    "6": "sixth round: written by an independent sub-agent that saw only the text of the property and a scratch worktree of /repo; the brief asked for m1 = an ordinary maintenance defect in a less obvious part of the property's scope and m2 = a defect that only shows under a particular usage pattern of the API (less common entry point or VM struct, second use, unusual order of calls, features combined, state after an Err), and said nothing about the suite",
}[rnd]
for m, needs, caught, status in (("m1", n1, c1, st1), ("m2", n2, c2, st2)):
    dst = f"/verif/seeded/{prop}-r{rnd}{m}"
    os.makedirs(dst, exist_ok=True)
    shutil.copy(f"{wt}/{m}.diff", f"{dst}/patch.diff")
    shutil.copy(f"{wt}/tests/demo_{m}.rs", f"{dst}/demo_{m}.rs")
    open(f"{dst}/NOTES-from-author.md", "w").write(open(f"{wt}/NOTES.md").read())
    log = [l.rstrip() for l in open(f"/tmp/confirm-{prop}-{m}-r{rnd}.log") if l.strip()]
    meta = {
        "id": f"{prop}-r{rnd}{m}",
        "breaks_property": prop,
        "origin": ORIGIN,
        "needs_to_manifest": needs,
        "confirmed_by_me": {
            "log": log,
            "commands": [f"tools/confirm_seeded.sh /tmp/w{rnd}-{prop} {m} (both demo files in tests/: the other demo passes, the repository's 560 / 704 tests pass)", f"tools/try_patch.sh seeded/{prop}-r{rnd}{m}/patch.diff {caught.replace(',', ' ')}"],
        },
        "caught_by_quick_checks": [c for c in caught.split(",") if c],
        "status": status,
    }
    json.dump(meta, open(f"{dst}/meta.json", "w"), indent=1)
    print("stored", dst)
