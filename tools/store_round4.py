#!/usr/bin/env python3
"""Store the two confirmed fourth-round ("realistic maintenance defect") changes of one property from
/tmp/w4-<Cxx>:  tools/store_round4.py <Cxx> "<needs m1>" "<needs m2>" [caught-by-m1] [caught-by-m2]"""
import sys, os, json, shutil
prop, n1, n2 = sys.argv[1:4]
c1 = sys.argv[4] if len(sys.argv) > 4 else prop
c2 = sys.argv[5] if len(sys.argv) > 5 else prop
wt = f"/tmp/w4-{prop}"
for m, needs, caught in (("m1", n1, c1), ("m2", n2, c2)):
    dst = f"/verif/seeded/{prop}-r4{m}"
    os.makedirs(dst, exist_ok=True)
    shutil.copy(f"{wt}/{m}.diff", f"{dst}/patch.diff")
    shutil.copy(f"{wt}/tests/demo_{m}.rs", f"{dst}/demo_{m}.rs")
    open(f"{dst}/NOTES-from-author.md", "w").write(open(f"{wt}/NOTES.md").read())
    log = [l.rstrip() for l in open(f"/tmp/confirm-{prop}-{m}-r4.log") if l.strip()]
    meta = {
        "id": f"{prop}-r4{m}",
        "breaks_property": prop,
        "origin": "fourth round: written by an independent sub-agent that saw only the text of the property and a scratch worktree of /repo; the brief asked for two small, realistic maintenance defects (refactoring slip, off-by-one, wrong width or signedness, forgotten case, state not reset) and said nothing about the suite",
        "needs_to_manifest": needs,
        "confirmed_by_me": {
            "log": log,
            "commands": [f"tools/confirm_seeded.sh /tmp/w4-{prop} {m} (both demo files in tests/: the other demo passes, the repository's 560 / 704 tests pass)", f"tools/try_patch.sh seeded/{prop}-r4{m}/patch.diff {caught.replace(',', ' ')}"],
        },
        "caught_by_quick_checks": [c for c in caught.split(",") if c],
        "status": "caught at first attempt",
    }
    json.dump(meta, open(f"{dst}/meta.json", "w"), indent=1)
    print("stored", dst)
