#!/usr/bin/env python3
"""Store a confirmed seeded change: tools/store_seeded.py <Cxx> <m1|m2> <caught-by,comma> <status> "<needs>" """
import sys, os, json, shutil, re
prop, m, caught, status, needs = sys.argv[1:6]
wt = f"/tmp/wt-{prop}"
dst = f"/verif/seeded/{prop}-{m}"
os.makedirs(dst, exist_ok=True)
shutil.copy(f"{wt}/{m}.diff", f"{dst}/patch.diff")
shutil.copy(f"{wt}/tests/demo_{m}.rs", f"{dst}/demo_{m}.rs")
notes = open(f"{wt}/NOTES.md").read()
open(f"{dst}/NOTES-from-author.md", "w").write(notes)
log = open(f"/tmp/confirm-{prop}-{m}.log").read()
totals = re.findall(r"totals: passed (\d+) failed (\d+)", log)
meta = {
    "id": f"{prop}-{m}",
    "breaks_property": prop,
    "origin": "written by an independent sub-agent that saw only the text of the property and a scratch worktree of /repo (nothing from /verif)",
    "needs_to_manifest": needs,
    "confirmed_by_me": {
        "demo_passes_on_clean_source": "test result: ok" in log.split("== mutated")[0],
        "suite_with_change_default_features": f"passed {totals[0][0]} failed {totals[0][1]} (the only failing test binary is demo_{m}; 560 tests of the repository pass)" if totals else "?",
        "suite_with_change_cranelift": f"passed {totals[1][0]} failed {totals[1][1]} (the only failing test binary is demo_{m}; 704 tests of the repository pass)" if len(totals) > 1 else "?",
        "commands": ["tools/confirm_seeded.sh /tmp/wt-%s %s" % (prop, m), "tools/try_patch.sh seeded/%s-%s/patch.diff %s" % (prop, m, caught.replace(",", " "))],
    },
    "caught_by_quick_checks": [c for c in caught.split(",") if c],
    "status": status,
}
json.dump(meta, open(f"{dst}/meta.json", "w"), indent=1)
print("stored", dst)
