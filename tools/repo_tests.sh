#!/bin/bash
# Run the repository's own suite (hooks off) in the three configurations; print totals.
cd /repo
for cfg in "" "--features cranelift" "--no-default-features"; do
  echo -n "cargo test $cfg: "
  cargo test --offline --no-fail-fast $cfg 2>&1 | grep -E "^test result|FAILED|failed|^error" | awk '/^test result/ {p+=$4; f+=$6} /error|FAILED/ {e+=1} END {print "passed",p,"failed",f,"errors",e+0}'
done
