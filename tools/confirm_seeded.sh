#!/bin/bash
# Confirm a sub-agent's mutation in ITS scratch worktree:
#   tools/confirm_seeded.sh <worktree> <m1|m2>
# checks: (a) demo passes on clean source, (b) with the diff applied the crate builds, the whole
# suite passes in both configurations and the demo fails. Leaves the worktree clean.
wt=$1; m=$2
cd "$wt" || exit 2
git checkout -q -- src 2>/dev/null
feat=""
grep -q 'cfg(feature = "cranelift")' tests/demo_$m.rs 2>/dev/null && feat="--features cranelift"
echo "== clean: demo_$m"
cargo test --offline $feat --test demo_$m 2>&1 | grep -E "^test result|error" | head -3
git apply $m.diff || { echo "PATCH DOES NOT APPLY"; exit 1; }
for cfg in "" "--features cranelift"; do
  echo "== mutated: suite ($cfg) - failing tests (only demo_* tests may appear):"
  cargo test --offline --no-fail-fast $cfg 2>&1 | grep -E "^test .* FAILED|^error: test failed|^test result: FAILED|could not compile" | sort | uniq -c | head -12
  cargo test --offline --no-fail-fast $cfg 2>&1 | grep -E "^test result" | awk '{p+=$4; f+=$6} END {print "   totals: passed",p,"failed",f}'
done
git checkout -q -- src
