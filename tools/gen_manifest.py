#!/usr/bin/env python3
"""Generate /verif/MANIFEST.json from the table below and validate it (and any evidence files)
against the schemas in /root/.vp. Run: python3 tools/gen_manifest.py"""
import json, os, subprocess, sys

ROOT = os.path.dirname(os.path.dirname(os.path.abspath(__file__)))

# id -> (technique, level text, level note, design ref)
CHECKS = {
 "C20": ("differential between two builds of the crate (default vs no_std) over generated corpora: transcript equality line by line",
         "Texts, near-valid byte strings, instruction streams and model-defined programs + inputs from the generators of C13/C14/C06/C15/C01 are evaluated by the default build (in-process, executions fork-isolated) and by a second binary linking the crate with default features off (JIT from caller-supplied executable memory); assembler, verifier, disassembler, interpreter and JIT results must be identical. X lines carry stack-usage calculator and helper set and run on all four VM kinds; the no_std JIT memory is also placed near the helpers and on either side of the +-2^31 distances from them. D lines also cover the near-valid byte strings of C06 (a panic is an answer like any other); R lines with a second program compile, run, replace the program with set_program(), compile and run again on one VM object; R lines compile, run, re-bind every helper id to another function, compile again and run again on one VM object in both builds. Exploration.",
         "The no_std build is linked into a std binary; only the kind of an error is compared, never its message.",
         "DESIGN.md section 3, C20"),
 "C18": ("stress exploration with generated configurations (threads x engines x addends x iteration counts) and an invariant oracle over the final memory state",
         "Up to 16 threads on a mix of interpreter, JIT and Cranelift hammer one naturally aligned word behind a start barrier, 16 such processes at a time; the final value must equal initial + sum(K*addend) mod 2^width and no neighbouring byte may change; misaligned interpreter adds must be refused without touching memory. Real schedules only - this family of technique cannot enumerate interleavings; a non-atomic read-modify-write is nevertheless caught within the first configurations (validated by mutation). Base / source / counter registers, displacement, and the way the word is made accessible (registered range, packet ending at the word, packet containing it, packet = word) are per-thread choices. Exploration, weakest claim of the set.",
         "Overlap of executions is made likely (barrier, K >= 10,000, oversubscription), not guaranteed; replay re-runs a configuration five times because schedules are not reproducible.",
         "DESIGN.md section 3, C18"),
 "C09": ("proptest over (VM kind, offset pairs, packet sequences, engine schedules) against an address oracle, one VM object driven through all three engines in a forked child",
         "Probe programs expose r1, r10, stack usability, packet addressing and - for the fixed-metadata VM - the two stored pointers; the harness knows the real packet addresses and checks every execution of a generated schedule on interpreter, JIT and Cranelift; half of the later packets of a schedule start (or end) at the same address as their predecessor with another length. Load-free probes hand r1 to a registered helper that reads the context. For the fixed-metadata VM the probe is re-loaded half way through the schedule with set_program() and another pair of offsets (swapped / partly moved / moved). Exploration.",
         "Empty-packet start pointer is not compared (only end - start == 0).",
         "DESIGN.md section 3, C09"),
 "C10": ("model-based (stateful) property testing: generated API-call histories checked step by step against an abstract VM state machine, fork-isolated",
         "Histories of up to 30 calls over load / verify / configure / compile / execute on all four VM kinds; the abstract machine predicts Ok/Err and the value of every step, using the reference model for program results; stale compiled code and state changes by failed calls are detected at the first observation that differs. Histories without packet-reading programs also execute with the empty packet. One pool program is admitted by the accept-all verifier only because of a local call in dead code whose target lies outside the program (histories that JIT-compile it are not judged). The program of the fixed VM's largest layout also adds up the spare words of its buffer (zero after every load, whatever earlier programs of the VM left). register_helper may bind an id to another function: after recompilation compiled code must call the new one. Exploration.",
         "The 'default' verifier re-installed through set_verifier is the harness's reference verifier (the crate does not export its own).",
         "DESIGN.md section 3, C10"),
 "C02": ("proptest + exhaustive boundary windows of single-access probes against an exact address oracle, fork-isolated with PROT_NONE guard pages and canary arenas",
         "Each probe is one access instruction whose effective address sits at a generated distance (-9..+9) from a boundary of packet, metadata buffer, registered range or stack, or is null / top-of-address-space / wrapping / far; the child process knows the real addresses and decides allowed <=> inside exactly one region, then checks Ok + exact value / stored bytes, or Err + no byte changed. Thorough enumerates every (boundary, delta, kind, width) for fixed layouts. Probes may be preceded, in the same basic block, by a narrower access at the same address, by in-bounds loads through the same register at other offsets, or by an in-bounds access after which the base register is redefined (lddw, mov, add, stack reload, helper result, ldabs); layouts include ranges 1-7 bytes apart and a range covering all others in every registration order. 240 enumerated packet loads on an empty packet (dangling slice and empty slice at a mapped address) on the raw, metadata and fixed-metadata VM structs must be refused. Layouts also cover the raw and no-data VM structs and a registered range that encloses the packet; one probe in eight runs under an accept-all verifier and moves r10 just before the access. Exploration (exhaustive within the windows in the thorough tier).",
         "Stack boundaries are probed r10-relative (half of the probes through r10 itself, half through a copy); registered ranges are kept from touching other regions.",
         "DESIGN.md section 3, C02"),
 "C07": ("proptest over generated call graphs against the reference model's C07 semantics, on the interpreter (value and error clauses) and the JIT (value clauses)",
         "Programs with 1-6 functions, forward/backward/long displacements, recursion bounded by a counter (depth 0-10), per-function callee-saved values, stack slots, r10 spills, helper calls with small ids, with and without a table-driven stack-usage calculator; every register/frame effect is folded into r0 and compared with the model. Calls in tail position (half of them self-recursive) and `callx +0` are generated. All four VM kinds; half of the VMs are created empty, configured (helpers, calculator) first and loaded last. Exploration.",
         "Error clauses only on the interpreter (the JIT has no run-time error channel).",
         "DESIGN.md section 3, C07"),
 "C11": ("proptest + exhaustive boundary windows of single-access probes compiled with Cranelift, one forked child per probe, SIGILL-handler oracle",
         "Same probe generator as C02 on the regions Cranelift knows; in bounds => exact value / stored bytes; out of bounds => the child must die in the trap (SIGILL) with every byte of the arenas unchanged (checked inside the signal handler); a normal return, SIGSEGV or changed byte is a violation. 240 enumerated packet loads on an empty packet (dangling slice and empty slice at a mapped address) on the raw, metadata and fixed-metadata VM structs must trap. Half of the stack probes use r10 itself as the base register. Probes may be preceded, in the same basic block, by a narrower access at the same address, by in-bounds loads through the same register at other offsets, or by an in-bounds access after which the base register is redefined (lddw, mov, add, stack reload, helper result, ldabs); packet and metadata buffer may be 1-7 bytes apart. Probes also run on the raw and no-data VM structs; one probe in eight is loaded under an accept-all verifier and moves r10 just before the access (the stack region does not move). Exploration (exhaustive within the windows in the thorough tier).",
         "A trap surfaces as SIGILL; guard pages turn performed out-of-region reads into faults.",
         "DESIGN.md section 3, C11"),
 "C05": ("proptest crash oracle over verifier-accepted near-valid byte strings and mutated structured programs, interpreted in a forked child under catch_unwind with an instruction budget; thorough tier adds a coverage-guided libFuzzer campaign (cargo-fuzz, ASan) with the same oracle inside the target",
         "Acceptance by the real verifier is the premise; every accepted program runs on a random VM kind / packet / metadata / helper set; Ok, Err and budget exhaustion are fine, a panic, abort or fatal signal is a violation (signature = panic location). Thorough adds 30x the cases. Soup mutations include byte-identical neighbours. A third of the cases register one or two ranges of allowed memory; a quarter of the structured programs start with a legacy packet load whose valid effective address lies in another region. Exploration.",
         "Budget exhaustion stands for 'keeps running'; the child process isolates crashes.",
         "DESIGN.md section 3, C05"),
 "C12": ("proptest crash + repeatability oracle: jit_compile / cranelift_compile twice in a forked child under catch_unwind, byte-identical JIT output through hook H2; thorough tier adds a coverage-guided libFuzzer campaign (cargo-fuzz, ASan) with the same oracle inside the target",
         "Verifier-accepted near-valid strings, mutated structured programs, 32k-100k-instruction programs and the 1,000,000-instruction limit case are compiled twice by each compiler; the oracle is Ok/Err without panic or signal, equal verdicts, and identical JIT code bytes. Page-edge programs: the code size of every instruction form is measured through hook H2 and programs are built whose code ends just below / at / just above each page multiple, for each of the four VM kinds (the prologue differs). Exploration.",
         "rbpf's own emit bounds assertion (debug assertions on) and process death detect overruns of the sized buffer; Cranelift code is not compared byte for byte.",
         "DESIGN.md section 3, C12"),
 "C01": ("proptest differential against an independent reference interpreter with definedness tracking (model-based oracle), fork-isolated",
         "Structured programs over every opcode, register, immediate class, control-flow shape, VM kind and input are executed by the interpreter in a forked child and compared (value or error class, and every packet / metadata byte) with a reference interpreter written from the ISA statement; runs that depend on undefined state are discarded and counted. Long programs (32k/65k/100k+ instructions) are a separate stream. A deterministic instruction matrix (every opcode x every register pair x boundary operands, ~108,000 single-instruction tests) and a pair matrix (all ordered pairs of ~70 instruction forms, second instruction entered in sequence / by jump / by local call) complement the random programs, as do the call graphs of C07. Loops whose head is instruction 0 (back-edges of every kind to a first instruction that is not idempotent, or that is a wide load) are a stream of their own, in C03 / C04 as well. A separate stream places one ldabs / ldind / ldx / stx, in bounds, far into a packet of 32-160 KiB (immediates and pointer advances around 2^15 and 2^16, 16-bit offsets down to -32768 and up to 32767) on the raw, metadata and fixed-metadata VMs; the expected value is the packet's own bytes at that position. A third of the VMs each: program given to new(); created empty, configured first and loaded last; program given to new(), configured, then the same program loaded again with set_program() (the configuration must survive a reload). Exploration.",
         "Trusts harness/vrun/src/model.rs; known finding I2 (zero-extended jump immediates) is excluded by its exact signature and reported as KNOWN-FINDING.",
         "DESIGN.md sections 2.1, 2.2, 3 C01"),
 "C03": ("proptest differential JIT vs interpreter under a model-checked premise, fork-isolated with guard-page buffers at identical addresses",
         "The reference model filters the premise (terminates, defined, in bounds); interpreter and x86-64 JIT then run in the same forked child from identical buffers and are compared on the return value and every byte of packet and metadata; compile errors, panics, traps and crashes of the JIT on such programs are violations. The instruction matrix and pair matrix of C01 (second instruction entered in sequence, by jump and by local call) run through the same differential; helper calls are checked for stack alignment. One fixed-metadata case in eight has overlapping pointer slots (same slot, or 1-7 bytes apart): the compilers must leave what the interpreter leaves there. The big-packet stream of C01 (accesses far into a packet of 32-160 KiB) runs through the same differential. A third of the VMs each: program given to new(); created empty, configured first and loaded last; program given to new(), configured, then the same program loaded again with set_program() (the configuration must survive a reload). Exploration.",
         "Premise classification trusts the model; watchdog hits are inconclusive; known finding I2 excluded by signature.",
         "DESIGN.md section 3, C03"),
 "C04": ("proptest differential Cranelift vs interpreter under a model-checked premise, plus a refusal oracle for programs with local calls",
         "Equivalence as for C03 with cranelift_compile / execute_program_cranelift on programs without local calls; programs with an eBPF-to-eBPF call (with and without a registered helper whose id equals the displacement) must make cranelift_compile return Err. The instruction matrix and pair matrix of C01 (second instruction entered in sequence and by jump) run through the same differential, as does the item 'packet load, store to those bytes, same packet load again', as do the overlapping-slot cases of C03 and the big-packet stream of C01 (accesses far into a packet of 32-160 KiB). A third of the VMs each: program given to new(); created empty, configured first and loaded last; program given to new(), configured, then the same program loaded again with set_program() (the configuration must survive a reload). Exploration.",
         "Premise classification trusts the model; Cranelift compile time bounds the case count; known finding I2 excluded by signature.",
         "DESIGN.md section 3, C04"),
 "C08": ("proptest with instrumented helpers (assembly entry stubs recording rsp, shared-memory call log) against the reference model's call sequence, on all three engines",
         "Generated programs with 1-4 call sites at local-call depth 0-8, boundary helper ids, registered and unregistered, junk in unused call fields; the observed log (which function, how often, argument order), stack alignment at entry, result and preserved registers are compared with the model; unregistered ids must be a run-time Err (interpreter, only if reached) or a compile-time Err (both compilers). All four VM kinds; helpers are registered in an order that is a function of the case; construction order as in C01 (new(program) / empty-configure-load / new(program)-configure-reload). Programs run under a stack-usage calculator returning 0-56 or exactly 256 bytes per frame, or under no calculator at all (default frames). Exploration.",
         "Alignment is read from rsp captured by a two-instruction assembly stub in front of each helper; Rust-ABI == C-ABI for five u64 arguments on x86-64.",
         "DESIGN.md section 3, C08"),
 "C06": ("proptest differential against an independent reference verifier over near-valid byte strings (both directions: false accepts and false rejects); thorough tier adds a coverage-guided libFuzzer campaign (cargo-fuzz, ASan) with the same oracle inside the target",
         "Near-valid byte strings (well-formed by construction, then 0-2 targeted mutations) and random strings are fed to the default verifier through new()/set_program() of all four VM kinds and compared with a reference verifier written from the property statement; every rule is exercised from both sides and the per-rule near-miss histogram is reported. Sampled, not exhaustive: exploration. Also embedded in long programs (0-70,000 filler instructions on either side, mutations anywhere), with byte-identical neighbours, and re-loaded into a VM that already holds the buffer.",
         "Trusts harness/vrun/src/refver.rs as the statement of well-formedness.",
         "DESIGN.md section 3, C06"),
 "C13": ("proptest differential: generated assembly texts vs a table-driven reference assembler with an independent encoder",
         "Texts over every documented mnemonic, operand shape, register, offset and immediate class and number spelling are assembled and compared byte for byte with what a reference assembler over the abstract syntax says they denote; invalid texts must be rejected. Repeated lines, line breaks inside instructions, long sources (200-4000 instructions) and register numbers around 2^32, 2^63 and 2^64 are generated. Exploration.",
         "Trusts harness/vrun/src/asmref.rs (mnemonic table from README/tests) and the reference encoder.",
         "DESIGN.md section 3, C13"),
 "C14": ("proptest crash oracle (catch_unwind) over token soup, arbitrary Unicode and mutated valid texts; thorough tier adds a coverage-guided libFuzzer campaign (cargo-fuzz, ASan) with the same oracle inside the target",
         "Totality is attacked with generators aimed at the parser's numeric conversions (literal lengths 1-80, all sign combinations, values around 2^63/2^64, huge register numbers) plus arbitrary strings and mutations of valid programs; the oracle is that assemble() returns. Valid texts with Unicode numeric lookalikes and mnemonic-position identifiers of up to 5000 bytes over mixed-width alphabets are included. Exploration.",
         "A panic must unwind to be observed (harness built with panic=unwind); time bound is a 20 s per-call watchdog reported as inconclusive.",
         "DESIGN.md section 3, C14"),
 "C15": ("proptest validity predicate: disassembler output vs independent decoder, mnemonic table and a parser of the assembler syntax; thorough tier adds a coverage-guided libFuzzer campaign (cargo-fuzz, ASan) with the same oracle inside the target",
         "Instruction streams over every opcode, all register nibbles, extreme offsets and immediates are disassembled; each entry's fields, merged immediate, name and parsed text are compared with the reference decoding (thorough: every opcode x all 65536 offsets enumerated). Long programs of up to 2^17 slots (2^19 thorough) with wide loads on every kind of position, and the captured stdout of disassemble(), go through the same oracle; so do a few programs of 999,998-1,000,003 slots with a wide load straddling slot 1,000,000 (the verifier's limit is not the disassembler's). About one instruction in four repeats the one before it, half of those with another upper half. A byte swap of a width the assembler cannot express must not print as a valid one. Exploration.",
         "Trusts the reference decoder and mnemonic table in isa.rs and the desc parser in asmref.rs; cosmetic text differences are tolerated by design.",
         "DESIGN.md section 3, C15"),
 "C16": ("proptest round trip disassemble -> assemble, with a canonical-form oracle for non-expressible programs; thorough tier adds a coverage-guided libFuzzer campaign (cargo-fuzz, ASan) with the same oracle inside the target",
         "Expressible canonical programs must round-trip exactly; for any other program an accepted text must assemble to the canonical form. Both the joined to_insn_vec texts and the captured stdout of disassemble() are round-tripped, for short streams and for long programs of up to 2^17 slots. Non-canonical streams put junk in every unused field, the opcode byte of a wide load's second slot included. Exploration.",
         "Canonical form is defined by the used-field table in isa.rs.",
         "DESIGN.md section 3, C16"),
 "C19": ("proptest against closed-form oracles (formula, exact integer square root, XOR involution with canaries, captured stdout byte count, range predicate)",
         "Each built-in helper is called on boundary-heavy argument tuples and compared with an independent statement of its documented function; pointer helpers run on canary-surrounded buffers; bpf_trace_printf's output is captured through a pipe on fd 1. strcmp / memfrob also run, fork-isolated, on buffers placed 0-2000 bytes before the end of a page followed by a differently filled or inaccessible page; sqrti arguments combine perfect-square and rounding-tie boundaries. The arguments a helper does not use take small numbers, boundary values and hashes. Exploration.",
         "Pointer preconditions are respected by construction; println! is assumed to write to fd 1.",
         "DESIGN.md section 3, C19"),
 "C17": ("exhaustive per-field enumeration + proptest round trip / differential against an independent encoder, Insn encoder, builder and assembler",
         "Exhaustive enumeration of each field (256x256 opcode/register bytes, all 65536 offsets, boundary immediates in quick and all 2^32 immediates in thorough) plus generated full slots at random program indices and generated builder-call chains, each compared with an independent reference encoder/decoder and cross-checked between Insn::to_array/to_vec, insn_builder and assemble(). Exhaustive per field, sampled for field combinations: exploration level. All 256 x 256 adjacent opcode pairs and programs with lengths around 2^16, 10^6 and 2^20 slots go through ebpf::to_insn_vec at every index. The bytes `(&instruction).into_bytes()` returns without pushing are compared as well; builder load() is judged for every size (opcode LD|IMM|size).",
         "Trusts the 20-line reference encoder in harness/vrun/src/isa.rs; builder constructors that denote no instruction are excluded.",
         "DESIGN.md section 3, C17"),
}

NOT_YET = "check not built yet in this round (see DESIGN.md section 9 for the order of work)"

def main():
    props = [json.loads(l) for l in open(os.path.join(ROOT, "properties.jsonl"))]
    hooks_commits = subprocess.run(["git", "-C", "/repo", "log", "--format=%H %s"], capture_output=True, text=True).stdout.splitlines()
    hook_shas = [l.split()[0] for l in hooks_commits if " verif-hooks" in l or l.split(" ", 1)[1].startswith("verif-hooks")]
    checks = []
    na = []
    for p in props:
        pid = p["id"]
        if pid in CHECKS:
            tech, text, note, ref = CHECKS[pid]
            checks.append({
                "property_id": pid,
                "quick_cmd": f"./check {pid} --tier quick",
                "thorough_cmd": f"./check {pid} --tier thorough",
                "evidence_file": f"/verif/evidence/{pid}.json",
                "replay_cmd_template": f"./check --replay {pid} {{path}}",
                "engine": "vrun",
                "level_claimed": {"category": "exploration", "text": text, "design_ref": ref},
                "level_note": note,
                "technique": tech,
            })
        else:
            na.append({"property_id": pid, "reason": NOT_YET})
    manifest = {
        "version": 1,
        "setup_cmd": "./check --setup",
        "hooks": {
            "guard": "verif-hooks",
            "enable": "cargo feature: the harness depends on rbpf = { path = \"/repo\", features = [\"cranelift\", \"verif-hooks\"] } (harness/vrun/Cargo.toml)",
            "baseline_off_cmd": "cd /repo && cargo test --workspace --no-fail-fast --offline",
            "source_commits": hook_shas,
            "add_only": True,
        },
        "engines": [
            {"name": "fuzzroot", "path": "/verif/fuzzroot/fuzz", "serves_properties": ["C05", "C06", "C12", "C14", "C15", "C16"],
             "kind_free_text": "cargo-fuzz project with five libFuzzer targets (semantic oracle inside each target); driven by vrun in the thorough tier, crash artifacts become replay files"},
            {"name": "vrun-nostd", "path": "/verif/harness-nostd", "serves_properties": ["C20"],
             "kind_free_text": "second binary linking rbpf with default features off (no_std) + verif-hooks; evaluates corpus lines and prints a transcript"},
            {"name": "vrun", "path": "/verif/harness/vrun", "serves_properties": sorted(CHECKS.keys()),
             "kind_free_text": "Rust binary: proptest-driven generators (seeded from VERIF_SEED, shrinking to replay files), independent reference models, fork-isolated execution of generated code, 16 worker processes; rebuilt from /repo's working tree by ./check"},
        ],
        "checks": checks,
        "not_applicable": na,
        "notes": "Every check: ./check <id> --tier quick|thorough; exit 0 held / 1 VIOLATION / 2 INCONCLUSIVE (hang, resource) / 3 harness does not build. Known findings: KNOWN_FINDINGS.txt. Replays: replays/<id>/*.json are executed first on every run.",
    }
    if not na:
        manifest["not_applicable"] = []
    out = os.path.join(ROOT, "MANIFEST.json")
    json.dump(manifest, open(out, "w"), indent=1)
    # validate
    try:
        import jsonschema
    except ImportError:
        print("jsonschema not available in this python; run with python3-vt"); return
    schema = json.load(open("/root/.vp/MANIFEST.schema.json"))
    jsonschema.validate(manifest, schema)
    print("MANIFEST.json valid;", len(checks), "checks,", len(na), "not applicable")
    es = json.load(open("/root/.vp/EVIDENCE.schema.json"))
    evdir = os.path.join(ROOT, "evidence")
    if os.path.isdir(evdir):
        for f in sorted(os.listdir(evdir)):
            if f.endswith(".json"):
                try:
                    jsonschema.validate(json.load(open(os.path.join(evdir, f))), es)
                    print("evidence", f, "valid")
                except Exception as e:
                    print("evidence", f, "INVALID:", str(e)[:300])

main()
