//! Transcript producer for C20: the same corpus lines are evaluated by this binary (rbpf built
//! with default features off = no_std) and by vrun (default build); the transcripts must agree.
//!
//! input lines:  A <hex utf8 text> | V <hex prog> | D <hex prog>
//!               X <vm> <d> <e> <pmod8> <mmod8> <budget> <hex prog> <hex pkt> <hex mbuff> <jit|nojit>
//!                 [c:<default>:<pc>=<size>,... | -] [h:<id>=<pool>,... | -] [placement of the JIT memory]
//!               placement: a = anywhere | n<i> = 16 MiB above pool helper i | p<k>:<i> / m<k>:<i> = the
//!               page-aligned address 2^31 above / below helper i, moved k pages towards the helper
//! output lines: one per input line, flushed immediately.

use std::io::{BufRead, Write};

fn unhex(s: &str) -> Vec<u8> {
    let b = s.as_bytes();
    let d = |c: u8| match c {
        b'0'..=b'9' => c - b'0',
        b'a'..=b'f' => c - b'a' + 10,
        _ => 0,
    };
    if s == "-" {
        return vec![];
    }
    b.chunks_exact(2).map(|p| d(p[0]) << 4 | d(p[1])).collect()
}

fn hex(b: &[u8]) -> String {
    if b.is_empty() {
        return "-".into();
    }
    b.iter().map(|x| format!("{x:02x}")).collect()
}

fn caught<T>(f: impl FnOnce() -> T + std::panic::UnwindSafe) -> Option<T> {
    std::panic::catch_unwind(f).ok()
}

struct Buf {
    store: Vec<u64>,
    off: usize,
    len: usize,
}

impl Buf {
    fn new(data: &[u8], mod8: usize) -> Buf {
        let mut store = vec![0u64; data.len() / 8 + 4];
        let off = mod8 % 8;
        unsafe {
            std::ptr::copy_nonoverlapping(data.as_ptr(), (store.as_mut_ptr() as *mut u8).add(off), data.len());
        }
        Buf { store, off, len: data.len() }
    }
    fn slice(&mut self) -> &'static mut [u8] {
        unsafe { std::slice::from_raw_parts_mut((self.store.as_mut_ptr() as *mut u8).add(self.off), self.len) }
    }
    fn bytes(&self) -> Vec<u8> {
        unsafe { std::slice::from_raw_parts((self.store.as_ptr() as *const u8).add(self.off), self.len).to_vec() }
    }
}

static mut EXEC_MEM: *mut u8 = std::ptr::null_mut();
const EXEC_LEN: usize = 8 << 20;

fn exec_memory() -> &'static mut [u8] {
    unsafe {
        if EXEC_MEM.is_null() {
            let p = libc::mmap(std::ptr::null_mut(), EXEC_LEN, libc::PROT_READ | libc::PROT_WRITE | libc::PROT_EXEC, libc::MAP_ANONYMOUS | libc::MAP_PRIVATE, -1, 0);
            assert!(p != libc::MAP_FAILED);
            EXEC_MEM = p as *mut u8;
        }
        std::slice::from_raw_parts_mut(EXEC_MEM, EXEC_LEN)
    }
}

// the helper pool of harness/vrun/src/runner.rs (same arities, same mixing function)
const POOL_ARITY: [u8; 8] = [5, 5, 3, 2, 1, 0, 5, 4];

fn pool_mix(idx: u8, a: &[u64; 5]) -> u64 {
    let mut h: u64 = 0x9e37_79b9_7f4a_7c15 ^ ((idx as u64 + 1) << 56);
    for k in 0..POOL_ARITY[idx as usize] as usize {
        h = (h ^ a[k]).wrapping_mul(0x1000_0000_01b3).rotate_left(23) ^ (k as u64 + 1);
    }
    h
}

macro_rules! pool_helper {
    ($name:ident, $idx:expr) => {
        fn $name(a: u64, b: u64, c: u64, d: u64, e: u64) -> u64 {
            pool_mix($idx, &[a, b, c, d, e])
        }
    };
}
pool_helper!(h0, 0);
pool_helper!(h1, 1);
pool_helper!(h2, 2);
pool_helper!(h3, 3);
pool_helper!(h4, 4);
pool_helper!(h5, 5);
pool_helper!(h6, 6);
pool_helper!(h7, 7);
const POOL: [fn(u64, u64, u64, u64, u64) -> u64; 8] = [h0, h1, h2, h3, h4, h5, h6, h7];

type CalcData = (Vec<(usize, u16)>, u16);

fn calc_fn(_prog: &[u8], pc: usize, data: &mut dyn std::any::Any) -> u16 {
    let inner: &dyn std::any::Any = match data.downcast_ref::<Box<dyn std::any::Any>>() {
        Some(b) => b.as_ref(),
        None => data,
    };
    let (table, default) = inner.downcast_ref::<CalcData>().expect("calculator data");
    table.iter().find(|(p, _)| *p == pc).map(|(_, s)| *s).unwrap_or(*default)
}

fn parse_pairs(s: &str) -> Vec<(u64, u64)> {
    s.split(',').filter_map(|kv| kv.split_once('=')).filter_map(|(a, b)| Some((a.parse().ok()?, b.parse().ok()?))).collect()
}

/// Executable memory at a chosen distance from a pool helper (the no_std JIT runs from memory the
/// caller supplies: where that memory lies relative to the helpers is part of the input).
fn placed_exec_memory(spec: &str) -> &'static mut [u8] {
    const LEN: usize = 1 << 20;
    let parse = |s: &str| -> (usize, usize) {
        let (k, i) = s.split_once(':').unwrap_or(("0", s));
        (k.parse().unwrap_or(0), i.parse().unwrap_or(0))
    };
    let want: Option<usize> = match spec.as_bytes().first() {
        Some(b'n') => Some(((POOL[parse(&spec[1..]).1 % 8] as usize) & !0xfff) + (16 << 20)),
        Some(b'p') => {
            let (k, i) = parse(&spec[1..]);
            ((POOL[i % 8] as usize).checked_add(1 << 31)).map(|a| (a & !0xfff) - k * 4096)
        }
        Some(b'm') => {
            let (k, i) = parse(&spec[1..]);
            ((POOL[i % 8] as usize).checked_sub(1 << 31)).map(|a| (a & !0xfff) + k * 4096)
        }
        _ => None,
    };
    if let Some(addr) = want {
        // regions placed earlier in this process are reused
        static mut PLACED: Vec<usize> = Vec::new();
        unsafe {
            let placed = &mut *std::ptr::addr_of_mut!(PLACED);
            if placed.contains(&addr) {
                return std::slice::from_raw_parts_mut(addr as *mut u8, LEN);
            }
            let p = libc::mmap(addr as *mut libc::c_void, LEN, libc::PROT_READ | libc::PROT_WRITE | libc::PROT_EXEC, libc::MAP_ANONYMOUS | libc::MAP_PRIVATE | libc::MAP_FIXED_NOREPLACE, -1, 0);
            if std::env::var_os("VERIF_DEBUG_PLACE").is_some() {
                eprintln!("placement {spec}: wanted {addr:#x}, mmap gave {:#x} (helper at {:#x})", p as usize, POOL[0] as usize);
            }
            if p != libc::MAP_FAILED && p as usize == addr {
                placed.push(addr);
                // leaked on purpose: a handful of placements per run
                return std::slice::from_raw_parts_mut(p as *mut u8, LEN);
            }
            if p != libc::MAP_FAILED {
                libc::munmap(p, LEN);
            }
        }
    }
    exec_memory()
}

/// interpreter and JIT results of one program: "i:<ok v pkt|err|panic> j:<ok v pkt|cerr|panic>"
fn exec_line(f: &[&str]) -> String {
    let vm = f[1];
    let d: usize = f[2].parse().unwrap_or(0);
    let e: usize = f[3].parse().unwrap_or(8);
    let pmod: usize = f[4].parse().unwrap_or(0);
    let mmod: usize = f[5].parse().unwrap_or(0);
    let budget: u64 = f[6].parse().unwrap_or(100000);
    let prog: &'static [u8] = Box::leak(unhex(f[7]).into_boxed_slice());
    let pkt = unhex(f[8]);
    let mbuff = unhex(f[9]);
    let with_jit = f.get(10).map(|s| *s == "jit").unwrap_or(false);
    let calc: Option<CalcData> = f.get(11).and_then(|x| x.strip_prefix("c:")).and_then(|spec| {
        let (d, t) = spec.split_once(':')?;
        Some((parse_pairs(t).into_iter().map(|(pc, s)| (pc as usize, s as u16)).collect(), d.parse().ok()?))
    });
    let place: &str = f.get(13).copied().unwrap_or("a");
    let helpers: Vec<(u32, u8)> = f.get(12).and_then(|x| x.strip_prefix("h:")).map(|spec| parse_pairs(spec).into_iter().map(|(id, p)| (id as u32, p as u8)).collect()).unwrap_or_default();
    let mut out = String::new();
    for engine in ["i", "j"] {
        if engine == "j" && !with_jit {
            out.push_str(" j:skip");
            continue;
        }
        let mut pb = Buf::new(&pkt, pmod);
        let mut mb = Buf::new(&mbuff, mmod);
        let paddr = pb.slice().as_ptr() as u64;
        if vm == "mbuff" {
            let m = mb.slice();
            if d + 8 <= m.len() {
                m[d..d + 8].copy_from_slice(&paddr.to_le_bytes());
            }
            if e + 8 <= m.len() {
                m[e..e + 8].copy_from_slice(&(paddr + pkt.len() as u64).to_le_bytes());
            }
        }
        rbpf::verif_hooks::set_insn_budget(budget);
        let r: Option<Result<Result<u64, ()>, ()>> = caught(std::panic::AssertUnwindSafe(|| {
            // Err(()) at the outer level = compile error
            macro_rules! go {
                ($vmv:expr, $interp:expr, $jit:expr) => {{
                    for (id, p) in &helpers {
                        $vmv.register_helper(*id, POOL[*p as usize % 8]).unwrap();
                    }
                    if let Some(c) = &calc {
                        $vmv.set_stack_usage_calculator(calc_fn, Box::new(c.clone())).unwrap();
                    }
                    if engine == "i" {
                        Ok($interp.map_err(|_| ()))
                    } else {
                        $vmv.set_jit_exec_memory(placed_exec_memory(place)).unwrap();
                        match $vmv.jit_compile() {
                            Err(_) => Err(()),
                            Ok(()) => Ok(unsafe { $jit }.map_err(|_| ())),
                        }
                    }
                }};
            }
            match vm {
                "nodata" => {
                    let mut v = match rbpf::EbpfVmNoData::new(Some(prog)) {
                        Ok(v) => v,
                        Err(_) => return Ok(Err(())),
                    };
                    go!(v, v.execute_program(), v.execute_program_jit())
                }
                "raw" => {
                    let mut v = match rbpf::EbpfVmRaw::new(Some(prog)) {
                        Ok(v) => v,
                        Err(_) => return Ok(Err(())),
                    };
                    go!(v, v.execute_program(pb.slice()), v.execute_program_jit(pb.slice()))
                }
                "mbuff" => {
                    let mut v = match rbpf::EbpfVmMbuff::new(Some(prog)) {
                        Ok(v) => v,
                        Err(_) => return Ok(Err(())),
                    };
                    go!(v, v.execute_program(pb.slice(), mb.slice()), v.execute_program_jit(pb.slice(), mb.slice()))
                }
                _ => {
                    let mut v = match rbpf::EbpfVmFixedMbuff::new(Some(prog), d, e) {
                        Ok(v) => v,
                        Err(_) => return Ok(Err(())),
                    };
                    go!(v, v.execute_program(pb.slice()), v.execute_program_jit(pb.slice()))
                }
            }
        }));
        out.push_str(&match r {
            None => format!(" {engine}:panic"),
            Some(Err(())) => format!(" {engine}:cerr"),
            Some(Ok(Err(()))) => format!(" {engine}:err"),
            Some(Ok(Ok(v))) => format!(" {engine}:ok,{v:x},{}", hex(&pb.bytes())),
        });
    }
    out.trim_start().to_string()
}

/// compile, run, re-register every helper id with the next pool function, compile again, run again
fn rebind_line(f: &[&str]) -> String {
    let vm = f[1];
    let d: usize = f[2].parse().unwrap_or(0);
    let e: usize = f[3].parse().unwrap_or(8);
    let pmod: usize = f[4].parse().unwrap_or(0);
    let mmod: usize = f[5].parse().unwrap_or(0);
    let prog: &'static [u8] = Box::leak(unhex(f[7]).into_boxed_slice());
    let pkt = unhex(f[8]);
    let mbuff = unhex(f[9]);
    let helpers: Vec<(u32, u8)> = f.get(12).and_then(|x| x.strip_prefix("h:")).map(|spec| parse_pairs(spec).into_iter().map(|(id, p)| (id as u32, p as u8)).collect()).unwrap_or_default();
    // optional: another program, loaded with set_program() before the second compilation
    let prog2: Option<&'static [u8]> = f.get(13).and_then(|x| x.strip_prefix("p2:")).map(|h| &*Box::leak(unhex(h).into_boxed_slice()));
    let mut pb = Buf::new(&pkt, pmod);
    let mut mb = Buf::new(&mbuff, mmod);
    let paddr = pb.slice().as_ptr() as u64;
    if vm == "mbuff" {
        let m = mb.slice();
        if d + 8 <= m.len() {
            m[d..d + 8].copy_from_slice(&paddr.to_le_bytes());
        }
        if e + 8 <= m.len() {
            m[e..e + 8].copy_from_slice(&(paddr + pkt.len() as u64).to_le_bytes());
        }
    }
    rbpf::verif_hooks::set_insn_budget(u64::MAX);
    let r: Option<(u32, u64)> = caught(std::panic::AssertUnwindSafe(|| {
        macro_rules! go {
            (@reload plain, $v:expr, $p:expr) => {
                $v.set_program($p)
            };
            (@reload fixed, $v:expr, $p:expr) => {
                $v.set_program($p, d, e)
            };
            ($kind:ident, $vmv:expr, $jit:expr) => {{
                let mut vals = [0u64; 2];
                for round in 0..2u8 {
                    if round == 1 {
                        if let Some(p2) = prog2 {
                            if go!(@reload $kind, $vmv, p2).is_err() {
                                return (7, 0);
                            }
                        }
                    }
                    for (id, p) in &helpers {
                        if $vmv.register_helper(*id, POOL[((*p + round) % 8) as usize]).is_err() {
                            return (3, 0);
                        }
                    }
                    // a second region for the second compilation
                    let mem: &'static mut [u8] = if round == 0 { exec_memory() } else { placed_exec_memory("n0") };
                    if $vmv.set_jit_exec_memory(mem).is_err() {
                        return (6, round as u64);
                    }
                    if $vmv.jit_compile().is_err() {
                        return (4, round as u64);
                    }
                    match unsafe { $jit } {
                        Ok(v) => vals[round as usize] = v,
                        Err(_) => return (5, round as u64),
                    }
                }
                (1, vals[0].wrapping_mul(0x9e37_79b9_7f4a_7c15) ^ vals[1])
            }};
        }
        match vm {
            "nodata" => {
                let Ok(mut v) = rbpf::EbpfVmNoData::new(Some(prog)) else { return (2, 0) };
                go!(plain, v, v.execute_program_jit())
            }
            "raw" => {
                let Ok(mut v) = rbpf::EbpfVmRaw::new(Some(prog)) else { return (2, 0) };
                go!(plain, v, v.execute_program_jit(pb.slice()))
            }
            "mbuff" => {
                let Ok(mut v) = rbpf::EbpfVmMbuff::new(Some(prog)) else { return (2, 0) };
                go!(plain, v, v.execute_program_jit(pb.slice(), mb.slice()))
            }
            _ => {
                let Ok(mut v) = rbpf::EbpfVmFixedMbuff::new(Some(prog), d, e) else { return (2, 0) };
                go!(fixed, v, v.execute_program_jit(pb.slice()))
            }
        }
    }));
    match r {
        None => "r:panic".to_string(),
        Some((1, v)) => format!("r:ok,{v:x}"),
        Some((code, at)) => format!("r:err{code},{at}"),
    }
}

fn main() {
    std::panic::set_hook(Box::new(|_| {}));
    let stdin = std::io::stdin();
    let stdout = std::io::stdout();
    let mut out = stdout.lock();
    for line in stdin.lock().lines() {
        let line = match line {
            Ok(l) => l,
            Err(_) => break,
        };
        let f: Vec<&str> = line.split(' ').collect();
        let res = match f[0] {
            "A" => {
                let text = String::from_utf8_lossy(&unhex(f[1])).to_string();
                match caught(move || rbpf::assembler::assemble(&text)) {
                    None => "panic".to_string(),
                    Some(Ok(b)) => format!("ok {}", hex(&b)),
                    Some(Err(_)) => "err".to_string(),
                }
            }
            "V" => {
                let prog = unhex(f[1]);
                match caught(move || rbpf::EbpfVmMbuff::new(Some(&prog)).is_ok()) {
                    None => "panic".to_string(),
                    Some(true) => "ok".to_string(),
                    Some(false) => "err".to_string(),
                }
            }
            "D" => {
                let prog = unhex(f[1]);
                match caught(move || rbpf::disassembler::to_insn_vec(&prog)) {
                    None => "panic".to_string(),
                    Some(v) => v.iter().map(|h| format!("{:x},{},{},{},{},{},{:x}", h.opc, h.name, h.desc.replace(' ', "_"), h.dst, h.src, h.off, h.imm)).collect::<Vec<_>>().join(";"),
                }
            }
            "X" => exec_line(&f),
            "R" => rebind_line(&f),
            _ => "?".to_string(),
        };
        let _ = writeln!(out, "{res}");
        let _ = out.flush();
    }
}
