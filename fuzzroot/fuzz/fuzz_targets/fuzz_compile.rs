//! C12: JIT compilation of any verifier-accepted program returns Ok or Err, never panics or
//! writes outside its buffer (ASan + the crate's own emit assertion), and is repeatable.
#![no_main]
use libfuzzer_sys::fuzz_target;

fn helper(a: u64, b: u64, c: u64, d: u64, e: u64) -> u64 {
    a ^ b ^ c ^ d ^ e
}

fuzz_target!(|data: &[u8]| {
    if data.len() < 2 {
        return;
    }
    let (cfg, rest) = data.split_at(1);
    let n = rest.len() / 8 * 8;
    let prog = &rest[..n];
    if let Ok(mut vm) = rbpf::EbpfVmRaw::new(Some(prog)) {
        if cfg[0] & 1 != 0 {
            for id in 0..4 {
                vm.register_helper(id, helper).unwrap();
            }
        }
        let first = vm.jit_compile().is_ok();
        let code1: Option<Vec<u8>> = vm.verif_jit_code().map(|c| c.to_vec());
        let second = vm.jit_compile().is_ok();
        assert_eq!(first, second, "compilation verdict is not repeatable");
        if first {
            assert_eq!(code1.as_deref(), vm.verif_jit_code(), "JIT output differs between two compilations");
        }
    }
});
