//! C14: assemble() is total. Any panic aborts the fuzzer (the oracle).
#![no_main]
use libfuzzer_sys::fuzz_target;

fuzz_target!(|data: &[u8]| {
    if let Ok(text) = std::str::from_utf8(data) {
        let _ = rbpf::assembler::assemble(text);
    }
});
