//! C15/C16: every byte string is first mapped onto a well-formed instruction stream (supported
//! opcodes, lddw followed by its second half, call kinds 0/1); disassembly must not panic, must
//! return one entry per instruction with the encoded fields, and assembling its text must not
//! panic and, when accepted, must give back the canonical form.
#![no_main]
use libfuzzer_sys::fuzz_target;

#[allow(dead_code)]
#[path = "../../../harness/vrun/src/isa.rs"]
mod isa;
use isa::*;

fuzz_target!(|data: &[u8]| {
    let mut ops = supported_opcodes();
    ops.push(TAIL_CALL);
    let mut insns: Vec<Insn> = Vec::new();
    for slot in data.chunks_exact(8) {
        let mut x = ref_decode(slot);
        x.opc = ops[x.opc as usize % ops.len()];
        if x.opc == CALL {
            x.src &= 1;
        }
        insns.push(x);
        if x.opc == LDDW {
            insns.push(Insn::new(0, 0, 0, 0, x.imm.rotate_left(7)));
        }
    }
    if insns.is_empty() {
        return;
    }
    let bytes = encode_prog(&insns);
    let hl = rbpf::disassembler::to_insn_vec(&bytes);
    // entries
    let mut i = 0;
    let mut k = 0;
    let mut canon: Vec<u8> = Vec::new();
    while i < insns.len() {
        let x = insns[i];
        let h = &hl[k];
        assert_eq!((h.opc, h.dst, h.src, h.off), (x.opc, x.dst, x.src, x.off), "entry {k} of {}", hex(&bytes));
        canon.extend_from_slice(&canonical(x).encode());
        if x.opc == LDDW {
            let want = ((x.imm as u32 as u64) | ((insns[i + 1].imm as u32 as u64) << 32)) as i64;
            assert_eq!(h.imm, want, "lddw immediate of entry {k} of {}", hex(&bytes));
            canon.extend_from_slice(&Insn::new(0, 0, 0, 0, insns[i + 1].imm).encode());
            i += 1;
        } else {
            assert_eq!(h.imm, x.imm as i64, "immediate of entry {k} of {}", hex(&bytes));
        }
        i += 1;
        k += 1;
    }
    assert_eq!(k, hl.len(), "entry count for {}", hex(&bytes));
    let text: Vec<String> = hl.iter().map(|h| h.desc.clone()).collect();
    if let Ok(q) = rbpf::assembler::assemble(&text.join("\n")) {
        assert_eq!(q, canon, "round trip of {} via {:?}", hex(&bytes), text);
    }
});
