//! C06: differential of the default verifier against the reference verifier of the harness
//! (the same source files, included by path).
#![no_main]
use libfuzzer_sys::fuzz_target;

#[allow(dead_code)]
#[path = "../../../harness/vrun/src/isa.rs"]
mod isa;
#[allow(dead_code)]
#[path = "../../../harness/vrun/src/refver.rs"]
mod refver;

fuzz_target!(|data: &[u8]| {
    let want = refver::violations(data).is_empty();
    let got = rbpf::EbpfVmMbuff::new(Some(data)).is_ok();
    if want != got {
        panic!("verifier disagreement: reference {} real {} on {}", want, got, isa::hex(data));
    }
});
