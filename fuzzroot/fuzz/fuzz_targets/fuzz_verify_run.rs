//! C05: a byte string the default verifier accepts can never crash the interpreter
//! (instruction budget through the verif-hooks feature; ASan watches the unsafe loads/stores).
#![no_main]
use libfuzzer_sys::fuzz_target;

fn helper(a: u64, b: u64, c: u64, d: u64, e: u64) -> u64 {
    a ^ b.rotate_left(7) ^ c.rotate_left(13) ^ d.rotate_left(29) ^ e.rotate_left(41)
}

fuzz_target!(|data: &[u8]| {
    if data.len() < 4 {
        return;
    }
    // first bytes: configuration; rest: the program (truncated to whole instructions)
    let (cfg, rest) = data.split_at(3);
    let n = rest.len() / 8 * 8;
    let prog = &rest[..n];
    let pkt_len = (cfg[0] % 48) as usize;
    let mut pkt = vec![0x5au8; pkt_len];
    let mut mbuff = vec![0u8; 32];
    rbpf::verif_hooks::set_insn_budget(5000);
    match cfg[1] % 3 {
        0 => {
            if let Ok(mut vm) = rbpf::EbpfVmRaw::new(Some(prog)) {
                vm.register_helper(cfg[2] as u32 % 8, helper).unwrap();
                let _ = vm.execute_program(&mut pkt);
            }
        }
        1 => {
            if let Ok(mut vm) = rbpf::EbpfVmMbuff::new(Some(prog)) {
                vm.register_helper(cfg[2] as u32 % 8, helper).unwrap();
                let p = pkt.as_ptr() as u64;
                mbuff[0..8].copy_from_slice(&p.to_le_bytes());
                mbuff[8..16].copy_from_slice(&(p + pkt_len as u64).to_le_bytes());
                let _ = vm.execute_program(&pkt, &mbuff);
            }
        }
        _ => {
            if let Ok(mut vm) = rbpf::EbpfVmFixedMbuff::new(Some(prog), 0x40, 0x50) {
                vm.register_helper(cfg[2] as u32 % 8, helper).unwrap();
                let _ = vm.execute_program(&mut pkt);
            }
        }
    }
});
